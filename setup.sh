#!/bin/sh
# offline setup: make sure hypothesis is importable in /venv (it normally already is)
HERE=$(cd "$(dirname "$0")" && pwd)
/venv/bin/python -c "import hypothesis" 2>/dev/null || \
  /venv/bin/pip install -q --no-index --find-links /opt/veriftools/wheels hypothesis
# optional second engine (thorough tier): atheris into <verif>/.deps
PYTHONPATH="$HERE/.deps" /venv/bin/python -c "import atheris" 2>/dev/null || \
  /venv/bin/pip install -q --no-index --find-links /opt/veriftools/wheels --target "$HERE/.deps" atheris 2>/dev/null || true
/venv/bin/python -c "import hypothesis, mofun, numpy, scipy; print('setup ok: hypothesis', hypothesis.__version__)"
