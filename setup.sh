#!/bin/sh
# offline setup: make sure hypothesis is importable in /venv (it normally already is)
/venv/bin/python -c "import hypothesis" 2>/dev/null || \
  /venv/bin/pip install -q --no-index --find-links /opt/veriftools/wheels hypothesis
/venv/bin/python -c "import hypothesis, mofun, numpy, scipy; print('setup ok: hypothesis', hypothesis.__version__)"
