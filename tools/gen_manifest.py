#!/venv/bin/python
"""Regenerates MANIFEST.json from the table below (keeps it schema-valid at all times)."""
import json, os, sys
HERE = os.path.dirname(os.path.dirname(os.path.abspath(__file__)))
sys.path.insert(0, HERE)
from tools.manifest_table import CHECKS, NOT_YET

props = [json.loads(l) for l in open(os.path.join(HERE, "properties.jsonl"))]
ids = [p["id"] for p in props]
checks = []
for pid in ids:
    if pid not in CHECKS:
        continue
    c = CHECKS[pid]
    checks.append({
        "property_id": pid,
        "quick_cmd": "./check.py %s --tier quick" % pid,
        "thorough_cmd": "./check.py %s --tier thorough" % pid,
        "evidence_file": "evidence/%s.json" % pid,
        "replay_cmd_template": "./check.py %s --replay {path}" % pid,
        "engine": c.get("engine", "hypothesis"),
        "level_claimed": {"category": "exploration", "text": c["text"], "design_ref": "DESIGN.md section 4, %s" % pid},
        "level_note": c["note"],
        "technique": c["technique"],
    })
na = [{"property_id": pid, "reason": NOT_YET.get(pid, "check not built yet; listed here until its generator and oracle are committed")}
      for pid in ids if pid not in CHECKS]
man = {
    "version": 1,
    "setup_cmd": "./setup.sh",
    "hooks": {"guard": "MOFUN_VERIF", "enable": "no hooks are needed: every observation point is a public return value or a written file; checks import /repo's working tree directly (editable install, or VERIF_REPO=<dir>)",
              "baseline_off_cmd": "cd /repo && /venv/bin/python -m pytest -ra -q -p no:cacheprovider --timeout=900 --continue-on-collection-errors",
              "source_commits": [], "add_only": True},
    "engines": [
        {"name": "hypothesis", "path": "mv/runner.py", "serves_properties": [p for p in ids if p in CHECKS],
         "kind_free_text": "Hypothesis 6.168 strategies / RuleBasedStateMachine sharded over 16 seeded workers, plus multiprocessing enumeration of finite domains; explicit oracles per property in props/"},
        {"name": "atheris", "path": "tools/fuzz_child.py", "serves_properties": ["C10", "C11", "C12", "C13", "C14", "C15", "C16", "C17", "C19"],
         "kind_free_text": "thorough tier only: atheris 3.1 (libFuzzer) instruments the mofun package and drives Hypothesis' fuzz_one_input of an existing part (same strategy, same oracle) under coverage feedback; 16 processes x 5000 executions with seeds derived from VERIF_SEED"},
    ],
    "checks": checks,
    "notes": "Entry point ./check.py <id> --tier quick|thorough [--replay FILE]; exit 0 ok / 1 VIOLATION / 2 harness error. known_findings.json lists known and fixed findings; regressions/ are replayed first in every run.",
    "not_applicable": na,
}
json.dump(man, open(os.path.join(HERE, "MANIFEST.json"), "w"), indent=1)
try:
    import jsonschema
    jsonschema.validate(man, json.load(open("/root/.vp/MANIFEST.schema.json")))
    print("MANIFEST valid;", len(checks), "checks;", len(na), "not yet claimed")
except ImportError:
    print("written (jsonschema not available for validation)")
