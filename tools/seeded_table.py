#!/venv/bin/python
"""Rewrites the block between <!-- SEEDED-TABLE-BEGIN --> and <!-- SEEDED-TABLE-END --> in DESIGN.md from seeded/*/meta.json"""
import glob, json, os, re
HERE = os.path.dirname(os.path.dirname(os.path.abspath(__file__)))
rows = []
for p in sorted(glob.glob(os.path.join(HERE, "seeded", "*", "meta.json")), key=lambda x: (os.path.basename(os.path.dirname(x)).split("-")[0], int(os.path.basename(os.path.dirname(x)).split("-")[1]))):
    name = os.path.basename(os.path.dirname(p))
    m = json.load(open(p))
    conf = m.get("confirmed", {})
    checks = m.get("checks", {})
    det = ", ".join("%s: %s" % (c, ("**detected** (%s)" % (r.get("kind") or "violation")) if r.get("detected") else "missed") for c, r in sorted(checks.items()))
    summ = re.sub(r"\s+", " ", m.get("summary", ""))[:170]
    needs = re.sub(r"\s+", " ", m.get("needs", ""))[:150]
    rows.append("| %s | %s | %s | %s | %s |" % (name, summ, needs, "yes" if conf.get("ok") else "NO", det))
table = ["| change | what was changed | what it needs to manifest | confirmed (demo 0/1, suite green) | quick checks run against it |",
         "|---|---|---|---|---|"] + rows
s = open(os.path.join(HERE, "DESIGN.md")).read()
b, e = "<!-- SEEDED-TABLE-BEGIN -->", "<!-- SEEDED-TABLE-END -->"
i, j = s.index(b) + len(b), s.index(e)
s = s[:i] + "\n" + "\n".join(table) + "\n" + s[j:]
open(os.path.join(HERE, "DESIGN.md"), "w").write(s)
print(len(rows), "seeded changes listed")
