#!/venv/bin/python
"""Confirm a seeded change independently in a scratch worktree and (optionally) run our checks against it.

usage: tools/confirm_seeded.py <src dir with patch.diff demo.py meta.json> [--checks C01,C02] [--tier quick]

1. scratch worktree of /repo HEAD under /tmp; demo on the clean tree must exit 0
2. apply patch; demo must exit 1; the pinned test suite must still give the baseline result
3. remove the worktree
4. copy the directory to /verif/seeded/<name>/ and record what was run in meta.json
5. for each listed check: git -C /repo apply, run ./check.py, git -C /repo checkout -- .  (records detected / missed)
"""
import argparse
import json
import os
import re
import shutil
import subprocess
import sys
import tempfile

HERE = os.path.dirname(os.path.dirname(os.path.abspath(__file__)))
PY = "/venv/bin/python"


def run(cmd, cwd=None, env=None, timeout=1800):
    p = subprocess.run(cmd, cwd=cwd, env=env, shell=isinstance(cmd, str), stdout=subprocess.PIPE, stderr=subprocess.STDOUT,
                       text=True, timeout=timeout)
    return p.returncode, p.stdout


def main():
    ap = argparse.ArgumentParser()
    ap.add_argument("src")
    ap.add_argument("--checks", default="")
    ap.add_argument("--tier", default="quick")
    ap.add_argument("--skip-confirm", action="store_true")
    args = ap.parse_args()
    src = os.path.abspath(args.src)
    name = os.path.basename(src.rstrip("/"))
    dst = os.path.join(HERE, "seeded", name)
    if src != dst:
        os.makedirs(dst, exist_ok=True)
        for f in ("patch.diff", "demo.py", "meta.json"):
            shutil.copy(os.path.join(src, f), os.path.join(dst, f))
    meta = json.load(open(os.path.join(dst, "meta.json")))
    patch = os.path.join(dst, "patch.diff")
    demo = os.path.join(dst, "demo.py")
    if not args.skip_confirm:
        wt = tempfile.mkdtemp(prefix="seedwt.", dir="/tmp")
        os.rmdir(wt)
        rc, out = run(["git", "-C", "/repo", "worktree", "add", "-q", "--detach", wt, "HEAD"])
        assert rc == 0, out
        try:
            env = dict(os.environ, PYTHONPATH=wt, PYTHONHASHSEED="0")
            rc_clean, out_clean = run([PY, demo], cwd=wt, env=env)
            rc, out = run(["git", "apply", patch], cwd=wt)
            applies = rc == 0
            rc_mut, out_mut = run([PY, demo], cwd=wt, env=env) if applies else (None, out)
            rc_t, out_t = run([PY, "-m", "pytest", "-q", "-p", "no:cacheprovider", "-x", "--deselect",
                               "tests/test_atoms_load_save.py::test_atoms_load_p1_cif__outputs_file_identical_to_input_file"],
                              cwd=wt, env=env) if applies else (None, "")
            tail = out_t.strip().splitlines()[-1] if out_t.strip() else ""
            meta["confirmed"] = {
                "repo_head": run(["git", "-C", "/repo", "rev-parse", "--short", "HEAD"])[1].strip(),
                "patch_applies": applies,
                "demo_exit_clean_tree": rc_clean,
                "demo_exit_with_patch": rc_mut,
                "demo_output_with_patch": (out_mut or "")[-600:],
                "test_suite_with_patch": tail,
                "ran": ["PYTHONPATH=<scratch worktree> /venv/bin/python demo.py (clean tree, then with patch.diff applied)",
                        "/venv/bin/python -m pytest -q (with patch.diff applied; the always-failing CIF test deselected)"],
                "ok": bool(applies and rc_clean == 0 and rc_mut == 1 and rc_t == 0),
            }
        finally:
            run(["git", "-C", "/repo", "worktree", "remove", "--force", wt])
        print("confirm %s: applies=%s clean=%s patched=%s tests=%r" % (name, applies, rc_clean, rc_mut, tail))
    seed = os.environ.get("VERIF_SEED", "1")
    # runs at other seeds are kept apart: "checks" always describes the default seed
    results = meta.setdefault("checks", {}) if seed == "1" else meta.setdefault("other_seeds", {}).setdefault(seed, {})
    chks = [c for c in args.checks.split(",") if c]
    if chks:
        # run the checks against a scratch worktree with the patch applied (VERIF_REPO), so that /repo itself stays
        # untouched and other checks can run at the same time; equivalent to git -C /repo apply / checkout
        wt = tempfile.mkdtemp(prefix="seedchk.", dir="/tmp")
        os.rmdir(wt)
        rc, out = run(["git", "-C", "/repo", "worktree", "add", "-q", "--detach", wt, "HEAD"])
        assert rc == 0, out
        try:
            rc, out = run(["git", "apply", patch], cwd=wt)
            if rc != 0:
                print("cannot apply to current tree:", out)
                chks = []
            for chk in chks:
                env = dict(os.environ, VERIF_REPO=wt)
                rc, out = run([os.path.join(HERE, "check.py"), chk, "--tier", args.tier], cwd=HERE, env=env)
                m = re.search(r"VIOLATION property=(\S+) replay=(\S+)", out)
                kind = re.search(r"kind=(\S+)", out)
                results[chk] = {"tier": args.tier, "exit": rc, "detected": rc == 1 and bool(m),
                                "kind": kind.group(1) if kind else None,
                                "repo_head": run(["git", "-C", "/repo", "rev-parse", "--short", "HEAD"])[1].strip()}
                print("  %s on %s: exit=%d %s" % (chk, name, rc, "DETECTED " + (kind.group(1) if kind else "") if rc == 1 else "missed" if rc == 0 else "ERROR\n" + out[-800:]))
        finally:
            run(["git", "-C", "/repo", "worktree", "remove", "--force", wt])
    json.dump(meta, open(os.path.join(dst, "meta.json"), "w"), indent=1)


if __name__ == "__main__":
    main()
