#!/bin/sh
# usage: tools/mut.sh <patchfile> <Cxx> [tier]   -- applies a patch to a scratch copy of /repo and runs a check against it
set -e
P=$(realpath "$1")
D=$(mktemp -d /tmp/mofun_mut.XXXXXX)
rsync -a --exclude .git --exclude '*.egg-info' /repo/ "$D"/
( cd "$D" && patch -p1 -s < "$P" )
shift
VERIF_REPO="$D" /verif/check.py "$@" || true
rm -rf "$D"
