#!/bin/sh
# usage: tools/confirm_round.sh <round tag> <Cxx> [Cxx ...]  -- confirm every change a round's agent left for the property and run its home check
R=$1; shift
for p in "$@"; do
  for d in /tmp/seed${R}_$p/seeded/$p-*; do
    [ -f "$d/patch.diff" ] || continue
    /verif/tools/confirm_seeded.py "$d" --checks $p 2>&1 | grep -E "^confirm|^  C|cannot apply|Error|error" 
  done
done
