#!/bin/sh
# usage: tools/revalidate.sh Cxx [Cxx ...]  -- re-run the home check against every seeded change of the listed properties; prints one line each
for p in "$@"; do
  for d in /verif/seeded/$p-*; do
    /verif/tools/confirm_seeded.py "$d" --skip-confirm --checks $p 2>&1 | grep -E "^  C" 
  done
done
