#!/bin/sh
# usage: tools/revalidate_recent.sh [base commit]  -- home check against every seeded change added since the base commit
# (default: the last commit before round 9); one line each
cd /verif
BASE=${1:-83ca187}
for n in $(git diff --name-only --diff-filter=A $BASE HEAD -- seeded | cut -d/ -f2 | sort -u | sort -t- -k1,1 -k2,2n); do
  p=$(echo $n | cut -d- -f1)
  tools/confirm_seeded.py seeded/$n --skip-confirm --checks $p 2>&1 | grep "^  C"
done
