#!/bin/sh
# usage: tools/seeded.sh <dir with patch.diff> <Cxx> [args]  -- apply a seeded patch to /repo, run the check, undo
set -e
P=$(realpath "$1")/patch.diff
shift
git -C /repo apply "$P"
/verif/check.py "$@" || true
git -C /repo checkout -- .
git -C /repo status --short | head -3
