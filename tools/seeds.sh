#!/bin/sh
# quietness on the unchanged tree at several seeds (DESIGN 7.1); prints only the runs that are not OK
T=${2:-quick}
for s in ${1:-2 3 4 5 6}; do
  for p in C01 C02 C03 C04 C05 C06 C07 C08 C09 C10 C11 C12 C13 C14 C15 C16 C17 C18 C19 C20; do
    VERIF_SEED=$s VERIF_REPO_EVID=skip /verif/check.py $p --tier $T > /tmp/seeds.$p.$s.log 2>&1; rc=$?
    if [ $rc -ne 0 ]; then echo "seed=$s $p exit=$rc"; grep -E '^(VIOLATION|HARNESS|  part|  detail)' /tmp/seeds.$p.$s.log | head -4; fi
  done
  echo "seed $s done"
done
