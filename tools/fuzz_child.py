#!/venv/bin/python
"""Coverage-guided driver: atheris (libFuzzer) feeds bytes to Hypothesis' fuzz_one_input of one HypPart, so the same
strategy and oracle are explored under coverage feedback from the instrumented mofun package.

usage: fuzz_child.py <Cxx> <part> <runs> <seed> <corpus dir> <stats json>
Prints 'VIOLATION-CASE <replay path>' and exits 1 on an oracle violation; writes the stats file periodically (atexit does
not run under libFuzzer)."""
import json
import os
import sys

HERE = os.path.dirname(os.path.dirname(os.path.abspath(__file__)))
sys.path.insert(0, os.path.join(HERE, ".deps"))
sys.path.insert(0, HERE)
if os.environ.get("VERIF_REPO"):
    sys.path.insert(0, os.environ["VERIF_REPO"])

import atheris  # noqa: E402

prop, part_name, runs, seed, corpus, stats_path = sys.argv[1], sys.argv[2], int(sys.argv[3]), int(sys.argv[4]), sys.argv[5], sys.argv[6]

with atheris.instrument_imports(include=["mofun"]):
    import mofun  # noqa: F401
    import mofun.atoms  # noqa: F401
    import mofun.mofun  # noqa: F401
    import mofun.helpers  # noqa: F401
    import mofun.rough_uff  # noqa: F401
    import mofun.detect_bonds  # noqa: F401

from hypothesis import HealthCheck, given, settings  # noqa: E402

from mv import runner  # noqa: E402

mod = runner._load_mod(prop)
part = runner._get_part(mod, part_name)
stats = runner.Stats()
active = [e["id"] for e in runner.load_known(prop)]
real_stdout = sys.__stdout__


def dump():
    with open(stats_path, "w") as f:
        json.dump({"evaluations": stats.evaluations, "nontrivial": sorted(stats.nontrivial), "counters": stats.counters,
                   "samples": runner.jsonable(stats.samples[:2]), "known": stats.known}, f)


@settings(database=None, deadline=None, suppress_health_check=list(HealthCheck))
@given(part.strategy("thorough"))
def test(case):
    stats.evaluations += 1
    try:
        runner.run_oracle(part, case, stats)
    except runner.Violation as v:
        fid = runner.match_known(mod, active, part.name, case, v)
        if fid:
            stats.known[fid] = stats.known.get(fid, 0) + 1
            return
        path = runner.write_replay(prop, part.name, {"case": runner.jsonable(case), "violation": v.to_json()})
        dump()
        real_stdout.write("VIOLATION-CASE %s\n" % path)
        real_stdout.flush()
        os._exit(1)
    if stats.evaluations % 200 == 0:
        dump()


def one(data):
    test.hypothesis.fuzz_one_input(data)


runner._quiet()
os.makedirs(corpus, exist_ok=True)
if not os.listdir(corpus):
    # starting corpus: seeded random buffers long enough for Hypothesis to build multi-atom / multi-term cases
    import random
    rng = random.Random(seed)
    for k, n in enumerate([64, 128, 256, 256, 512, 512, 1024, 1024, 2048, 2048, 4096, 4096]):
        with open(os.path.join(corpus, "seed%02d" % k), "wb") as f:
            f.write(rng.randbytes(n))
atheris.Setup([sys.argv[0], "-runs=%d" % runs, "-seed=%d" % (seed or 1), "-max_len=4096", "-verbosity=0", "-print_final_stats=0", corpus], one)
dump()
atheris.Fuzz()
