#!/usr/bin/env python3
"""Prepare a seeding round: one scratch worktree of /repo per property with the task text in SEEDING_TASK.md.

usage: tools/mk_round.py <round tag, e.g. 9> <focus file> [--n 2] [--props C01,C02,...]

The task text is tools/seeding_prompt.txt up to the line 'THIS ROUND'S FOCUS', followed by the focus file. The
sub-agent is told only to read <worktree>/SEEDING_TASK.md; nothing from /verif is visible to it except the one-line
summaries of earlier changes for its property (so that it does not repeat them).
"""
import argparse
import glob
import json
import os
import re
import subprocess

HERE = os.path.dirname(os.path.dirname(os.path.abspath(__file__)))


def main():
    ap = argparse.ArgumentParser()
    ap.add_argument("tag")
    ap.add_argument("focus")
    ap.add_argument("--n", type=int, default=2)
    ap.add_argument("--props", default="")
    args = ap.parse_args()
    tmpl = open(os.path.join(HERE, "tools", "seeding_prompt.txt")).read()
    head = tmpl.split("* THIS ROUND'S FOCUS")[0]
    focus = open(args.focus).read()
    props = [json.loads(l) for l in open(os.path.join(HERE, "properties.jsonl"))]
    want = [p for p in args.props.split(",") if p]
    for p in props:
        pid = p["id"]
        if want and pid not in want:
            continue
        ks = []
        prior = []
        for d in sorted(glob.glob(os.path.join(HERE, "seeded", pid + "-*")),
                        key=lambda d: int(d.rsplit("-", 1)[1])):
            k = int(d.rsplit("-", 1)[1])
            ks.append(k)
            m = json.load(open(os.path.join(d, "meta.json")))
            prior.append("    - %s-%d: %s" % (pid, k, re.sub(r"\s+", " ", m.get("summary", ""))[:260]))
        k0 = max(ks) + 1 if ks else 1
        k1 = k0 + args.n - 1
        wt = "/tmp/seed%s_%s" % (args.tag, pid)
        if not os.path.isdir(wt):
            subprocess.check_call(["git", "-C", "/repo", "worktree", "add", "-q", "--detach", wt, "HEAD"])
        text = (head + focus).format(WT=wt, ID=pid, TITLE=p["title"], STATEMENT=p["statement"],
                                     QUANT=p["quantifier"]["text"], N=args.n, K0=k0, K1=k1, PRIOR="\n".join(prior))
        open(os.path.join(wt, "SEEDING_TASK.md"), "w").write(text)
        print(pid, wt, "%s-%d..%d" % (pid, k0, k1))


if __name__ == "__main__":
    main()
