#!/bin/sh
# usage: tools/run_all.sh [tier] ; runs every check, prints one line each
T=${1:-quick}
for p in C01 C02 C03 C04 C05 C06 C07 C08 C09 C10 C11 C12 C13 C14 C15 C16 C17 C18 C19 C20; do
  /verif/check.py $p --tier $T > /tmp/runall.$p.log 2>&1; rc=$?
  echo "$p exit=$rc $(grep -E '^(OK|VIOLATION|HARNESS|KNOWN)' /tmp/runall.$p.log | head -2 | tr '\n' ' ')"
done
