H = "Hypothesis 6.168 strategies sharded over 16 seeded workers"
CHECKS = {
 "C01": {
  "technique": "Hypothesis-generated planted periodic structures (+ in-place edit histories, priming searches, keyword / positional call forms, patterns carrying a cell, tolerances down to exactly 0); validity predicate per returned match against an independent brute-force image/Kabsch classifier",
  "text": "Thousands of generated structures per run (tight orthorhombic/tilted cells, all pattern and pose classes, boundary-straddling copies, decoys incl. mirror images, every hint form, seeded RNGs; a second part searches again after in-place edits of the same object). Every returned match is checked for length, range, distinctness, elements, being a non-clear-out rigid image under some choice of periodic images, returned positions = stored position + lattice vector, and the returned proper rotation fitting within atol component-wise. Random search: no absence proof.",
  "note": "grey zone between atol/16 (clear-in) and sqrt(3)*atol (clear-out) is not judged; numpy/scipy trusted",
 },
 "C02": {
  "technique": "Hypothesis-generated planted structures vs. an independent brute-force reference matcher (three-valued) - differential on sets of atom groups",
  "text": "IN subset-of reported subset-of IN+GREY with each group once and exact count when no grey group exists, on thousands of generated cases per run with measured distribution of boundary crossings (0-3), tilt signs, pose classes and decoys; plus searches after in-place edits.",
  "note": "reference matcher (mv/ref_match.py) is trusted; cases exceeding its candidate budget are skipped and counted",
 },
 "C03": {
  "technique": "Hypothesis metamorphic testing (shift+wrap, permutation incl. in-place re-listing of the searched object, rotation of the whole crystal, pattern motion, hints, seeds, replication) on generated structures and the repository's MOF files",
  "text": "For each generated base case one transformation is applied and the renamed set of matched atom groups must be equal (x a*b*c under replication); differences are tolerated only for groups the reference classifies grey. Real files (uio66, uio66-triclinic, hkust-1) get the same relations, the only oracle available there.",
  "note": "replication relies on Atoms.replicate (C12); supercells bounded to ~300 atoms in the generated part",
 },
 "C04": {
  "technique": "Hypothesis-generated replacement cases vs. an accounting model written from the statement (identity via charge tags, reference matcher for the found groups)",
  "text": "Atom/element counts, exactly the search-only atoms of k found groups removed, every other atom unchanged (position, element, label, mass, charge, group), k within 0.5 of f*M, inputs deep-compared with snapshots; replacement kinds empty/smaller/equal/larger/disjoint/identical, fractions incl. exact ties, replace_all on/off.",
  "note": "cases with grey or overlapping reference groups are outside the property's domain and skipped (counted); which matches are chosen is not asserted",
 },
 "C05": {
  "technique": "Hypothesis-generated replacement cases; existential proper-Kabsch fit of search+replacement coordinates onto matched+inserted atoms modulo the lattice; metamorphic joint motion; far-replacement and replace-replicate-replace histories",
  "text": "Every block of inserted atoms must, with some replaced group and feasible ordering, be a proper rigid image of the pattern pair within a bound proportional to the match's own deviation; fractional coordinates in [0,1]; same result after moving both patterns jointly; replacement atoms several cell lengths away (wrap by more than one lattice vector); a second replacement on a replicated result of a first one (stale per-object state).",
  "note": "first-order lever-arm amplification bound plus a numerical floor of 2e-5 A + 5e-8 * size * lever ratio (arccos conditioning in mofun's rotation construction)",
 },
 "C06": {
  "technique": "Hypothesis-generated typed structures/patterns and replacement chains vs. a resolved-term reference model (term -> atom identities -> coefficient text), cross-checked through an independent LAMMPS reader; documented example 3",
  "text": "Expected atoms and terms after 1-3 chained replacements are computed by a pure-Python model from the statement and compared as multisets of resolved records for all four term kinds, all table/no-table compatibility cases, the CIF-style workflow and terms inside/outside/across matches incl. overrides forwards/backwards/other order; the written LAMMPS file must resolve to the same view.",
  "note": "cases with grey/overlapping groups or several feasible orderings are skipped and counted; type-id numbering and term order not asserted",
 },
 "C07": {
  "technique": "Hypothesis constructive-overlap generator (chains, zig-zags, stars; orthorhombic, sheared, tight and turned cells; look-alike priming calls; keyword / positional call forms) vs. a deletion-set model over the reference matcher's groups and feasible orderings",
  "text": "Raise iff every combination of feasible orderings removes an atom twice (and the flag is off), never for empty replacements or overlaps only in retained atoms; when a structure is returned the removed atoms are exactly one deletion set per match and surviving bonds still join the same atoms; structure and both patterns equal their snapshots after every call, refused or not.",
  "note": "exception message not checked; for fractions < 1 only the implications that hold for every random choice are asserted",
 },
 "C08": {
  "technique": "Hypothesis identity / inverse relations (self-replacement, A->B->A, second search vs reference) on generated structures and the repository's MOF files",
  "text": "Self-replacement with replace_all off/on must leave positions (mod lattice), elements, charges, groups, counts and term-tuple sets unchanged; A->B->A must restore the (element, position) multiset; after replacing all A a second search must agree with the reference matcher on the result; uio66 / uio66-triclinic / hkust-1 real files.",
  "note": "accidental extra occurrences, grey or overlapping groups are skipped and counted",
 },
 "C09": {
  "technique": "model-based stateful testing: Hypothesis RuleBasedStateMachine over a pool of Atoms objects mirrored by a pure-Python resolved-view model + bounded-exhaustive enumeration of all step sequences up to depth 2 (quick) / 3 (thorough); independent LAMMPS reader on every state",
  "text": "After every step of construct / copy / delete / pop / subset / extend / replicate / replace / reload histories the real object must resolve to the model (labels, elements, masses, pair and coefficient text, terms on the same tagged atoms) and, if it has an atom, must write a LAMMPS file that an independent reader finds well-formed and that reads back to the same view. Histories that empty a term kind or all atoms before adding are generated on purpose and counted.",
  "note": "identity through unique charge tags (re-tagged by the harness after replicate/replace); subset drops terms by documentation",
 },
 "C10": {
  "technique": "exhaustive enumeration (every subset x listing orders x containers, pop at every position, two-step and copy-then-delete histories on a fixed family) + Hypothesis random structures up to 1200 atoms (up to 1200 deletions in one call), against an identity-tag model",
  "text": "For the family of n<=5 (quick) / n<=6 (thorough) structures every non-empty subset in three orders is enumerated completely; plus random typed structures up to 12/40 atoms. Survivors in order with all data; a term survives iff untouched, with the same tagged atoms, type and extra fields.",
  "note": "duplicate / out-of-range indices are outside the domain",
 },
 "C11": {
  "technique": "exhaustive enumeration of all partial injective identity maps x modes on a fixed family + Hypothesis compatible pairs, against a resolved-term model; longer histories (third fragment, first fragment again) with snapshot comparison of the fragments",
  "text": "Appended atoms in order, mapped atoms adopt type and extra fields, every term of other present once resolving to other's own coefficient text (or the shared id), same-atoms terms superseded forwards/backwards only, extra columns merged by label with '.'; default offsets, explicit offsets, repeated extension, shared ids; self emptied by deletion included.",
  "note": "pairs generated compatible per term kind; untyped kinds compared by type partition",
 },
 "C12": {
  "technique": "Hypothesis typed structures x replication triples against the direct statement (image atoms identified by position), all cell orientations; replicate-edit-replicate histories and aliasing checks",
  "text": "a*b*c*N atoms, one atom per (original, image) at pos + iA + jB + kC with identical resolution, cell rows scaled, terms (incl. impropers, terms without bonds, per-term extra fields) copied within each image, tables unchanged, original unmodified, (1,1,1) identity.",
  "note": "atom order of the result not asserted",
 },
 "C13": {
  "technique": "Hypothesis typed structures (up to hundreds of atoms); independent LAMMPS data reader written in the harness + load round trip + write idempotence + second write after editing the object in place (labels, charge, position, coefficient row, cell shear); non-atomic masses",
  "text": "The written text is parsed by mv/ref_lammps.py (no shared code): counts, type counts, box/tilt, masses, atoms, terms and coefficient rows must state the structure; load_lmpdat must reproduce ids, positions, cell, charges, groups, masses, labels, terms and coefficients token for token; second and third write byte-identical; path and file-object I/O agree; tables with 10-12 rows, id gaps, tiny tilts, both atom styles.",
  "note": "elements after reload are C14's business; printed precision %10.6f",
 },
 "C14": {
  "technique": "exhaustive enumeration of the mass table x tolerance boundaries + Hypothesis lists, against a nearest-within-tolerance specification",
  "text": "Every table entry and every mass on both sides of every tolerance boundary between mass-neighbours (incl. out-of-order pairs) is enumerated completely for six tolerances through the helper and through load_lmpdat; write/read of every element; plus generated mixed lists. Finite domain enumerated, so within it the result is complete; tolerances other than the six only sampled.",
  "note": "trusts the mass table as data; boundary cases within 1e-9 of the tolerance accept either answer",
 },
 "C15": {
  "technique": "Hypothesis round trip write->read->write with textual idempotence, by file object and through one re-used path + hand-emitted CIF variants for the reader + ase.io.read as independent reader",
  "text": "Typed structures with all term kinds incl. impropers and extra columns in ortho/tilted/rotated cells, atoms inside/outside/on the boundary, fractional and Cartesian output; reader inputs with s.u. parentheses, Cartesian-only files, permuted tags, boundary/negative/large fractional coordinates, P1 spellings and 16 non-P1 symbols.",
  "note": "PyCifRW 5.0.1 as installed; ASE shares cellpar_to_cell with mofun",
 },
 "C16": {
  "technique": "Hypothesis-generated CML documents loaded eleven ways (paths, text / binary handles, in-memory files, a rewound handle) from one re-used path; direct-statement oracle",
  "text": "One atom per entry in order with exactly the parsed coordinates and element, one bond per entry via index(ref), zero bonds when none, all five load routes equal; id schemes sequential/shuffled/sparse/arbitrary/positional traps, tiny/huge/negative-zero coordinates.",
  "note": "namespace-free documents only (as all repository files)",
 },
 "C17": {
  "technique": "exhaustive enumeration over all element pairs at cutoff*(1 +- d) through home/face/edge/corner images + Hypothesis structures; brute-force 5x5x5 minimum-image oracle; shift/permutation metamorphic relations; detect-edit-detect-substitute-detect histories on one object",
  "text": "All 4753 unordered pairs of the radius table x 6 near-cutoff distances on no cell / orthorhombic / tilted cells are enumerated in both tiers; result rows must be exactly the bonded pairs, each once, i<j.",
  "note": "radius table taken from the module; non-metal list pinned in the harness",
 },
 "C18": {
  "technique": "exhaustive / stratified enumeration of UFF type tuples against an independent re-implementation of the formulas + invariants + reversal symmetry",
  "text": "All 221^2 bonds x bond orders x rule sets and all central pairs x outer-atom classes x multiplicities in both tiers (8.7M evaluations quick); angles for every centre x stratified ends (quick) or all 221^3 (thorough). Results to 1e-9 relative, styles/integers/None/exception status exactly; Fourier minimum, positivity, 1/M scaling, reversal.",
  "note": "the reference shares the reading of the paper with the code; invariants and reversal are independent",
 },
 "C19": {
  "technique": "Hypothesis-generated bond graphs without 3-rings x UFF type palettes x renamings / list permutations / exclusion sets; brute-force enumeration and partition/parameter/renaming invariants; in-place relisting / rewiring of one bond list object and repeated retyping of one Atoms object",
  "text": "calc_angles / calc_dihedrals must equal brute-force enumeration each exactly once; typing partition = same sequence up to reversal (+ M); coefficient text of each term = parameters of its own sequence; undefined torsions dropped and only they; exclusion honoured; invariant under renaming and list order; retype and pair tables agree with per-atom types.",
  "note": "parameter functions taken as given (C18); M counted before exclusion",
 },
 "C20": {
  "technique": "Hypothesis-generated option combinations (+ one- and two-atom structures); differential CLI (in-process click runner) vs. the documented pipeline through the API with identical RNG seeds, byte-identical outputs; documented example commands",
  "text": "Every option drawn with probability 1/2 and an observable non-default value (distorted copies for --atol and hints, k/M fractions, unequal --replicate, --mic forcing 2 replicas, distinct charges, --pp, --framework-element with ASE output) on lmpdat/CIF/CML inputs, CML/lmpdat/CIF patterns, lmpdat/CIF/xyz outputs.",
  "note": "the API pipeline model is a second reading of the documentation; --dumppath/--extract-uc not exercised",
 },
}
NOT_YET = {}
