CHECKS = {
 "C01": {
  "technique": "Hypothesis-generated planted periodic structures; validity predicate per returned match against an independent brute-force image/Kabsch classifier",
  "text": "Thousands of generated structures (tight orthorhombic/tilted cells, all pattern and pose classes, boundary-straddling copies, decoys incl. mirror images, every hint form, seeded RNGs); every returned match is checked for length, range, distinctness, elements, being a non-clear-out rigid image under some choice of periodic images, returned positions = stored position + lattice vector, and the returned proper rotation fitting within atol component-wise. Random search: no absence proof.",
  "note": "grey zone between atol/16 (clear-in) and sqrt(3)*atol (clear-out) is not judged; numpy/scipy trusted",
 },
 "C02": {
  "technique": "Hypothesis-generated planted structures vs. an independent brute-force reference matcher (three-valued) - differential on sets of atom groups",
  "text": "IN subset-of reported subset-of IN+GREY with each group once and exact count when no grey group exists, on thousands of generated cases per run with measured distribution of boundary crossings (0-3), tilt signs, pose classes and decoys.",
  "note": "reference matcher (mv/ref_match.py) is trusted; cases exceeding its candidate budget are skipped and counted",
 },
 "C03": {
  "technique": "Hypothesis metamorphic testing (shift+wrap, permutation, pattern motion, hints, seeds, replication) on generated structures and the repository's MOF files",
  "text": "For each generated base case one transformation is applied and the renamed set of matched atom groups must be equal (x a*b*c under replication); differences are tolerated only for groups the reference classifies grey. Real files (uio66, uio66-triclinic, hkust-1) get the same relations, the only oracle available there.",
  "note": "replication relies on Atoms.replicate (C12); supercells bounded to ~300 atoms in the generated part",
 },
 "C14": {
  "technique": "exhaustive enumeration of the mass table x tolerance boundaries + Hypothesis lists, against a nearest-within-tolerance specification",
  "text": "Every table entry and every mass on both sides of every tolerance boundary between mass-neighbours (incl. out-of-order pairs) is enumerated completely for six tolerances through the helper and through load_lmpdat; write/read of every element; plus generated mixed lists. Finite domain enumerated, so within it the result is complete; tolerances other than the six only sampled.",
  "note": "trusts the mass table as data; boundary cases within 1e-9 of the tolerance accept either answer",
 },
}
NOT_YET = {}
