CHECKS = {
 "C14": {
  "technique": "exhaustive enumeration of the mass table x tolerance boundaries + Hypothesis lists, against a nearest-within-tolerance specification",
  "text": "Every table entry and every mass on both sides of every tolerance boundary between mass-neighbours (incl. out-of-order pairs) is enumerated completely for six tolerances through the helper and through load_lmpdat; write/read of every element; plus generated mixed lists. Finite domain enumerated, so within it the result is complete; tolerances other than the six only sampled.",
  "note": "trusts the mass table as data; boundary cases within 1e-9 of the tolerance accept either answer",
 },
}
NOT_YET = {}
