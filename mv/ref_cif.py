"""Minimal harness-side CIF emitter for hand-made reader inputs (DESIGN A.5). Only constructs that the repository's own
CIF files use are emitted."""


def q(v):
    v = str(v)
    if v == "" or any(c in v for c in " \t") or v[0] in "_#$'\"[];":
        return "'%s'" % v
    return v


def emit(doc):
    """doc: {name, hm (str|None), cell: [a,b,c,al,be,ga] as strings | None, atom_tags: [...], atom_rows: [[...]],
             loops: [(tags, rows)], header: 1.1|2.0|None}"""
    out = []
    if doc.get("header") == "2.0":
        out.append("#\\#CIF_2.0")
    elif doc.get("header") == "1.1":
        out.append("#\\#CIF_1.1")
    out.append("data_%s" % doc.get("name", "structure"))
    out.append("")
    if doc.get("hm") is not None:
        out.append("_symmetry_space_group_name_H-M  %s" % q(doc["hm"]))
        if doc.get("int_tables") is not None:
            out.append("_symmetry_Int_Tables_number     %s" % doc["int_tables"])
    if doc.get("cell") is not None:
        for tag, v in zip(("_cell_length_a", "_cell_length_b", "_cell_length_c", "_cell_angle_alpha", "_cell_angle_beta",
                           "_cell_angle_gamma"), doc["cell"]):
            out.append("%-34s %s" % (tag, v))
    for tags, rows in [(doc["atom_tags"], doc["atom_rows"])] + list(doc.get("loops", [])):
        if not rows:
            continue
        out.append("loop_")
        for t in tags:
            out.append("  " + t)
        for r in rows:
            out.append("  " + " ".join("%-10s" % q(v) for v in r))
    return "\n".join(out) + "\n"
