"""Pure-Python reference model of an Atoms object as a *resolved view* (DESIGN 3.3), spec builders and model operations.

A *spec* is a JSON-able description of a typed structure (what gen_atoms generates).  `build(spec)` makes the mofun object,
`model_from_spec(spec)` the model.  `resolve(atoms)` computes the model-shaped view of a real object through its public
arrays and raises a consistency Violation if the object is internally inconsistent.

Model = {"atoms": [atom records in order], "terms": {kind: [term records in order]}, "tables": {...}, "cell": 3x3|None}
atom record = {"tag", "pos", "label", "el", "mass", "pair", "charge", "group", "extra": {label: value}}
term record = {"tags": (tag, ...), "coeff": text | ("untyped", id), "extra": {label: value}}
Identity tags are the unique per-atom charges (the harness generates them unique).
"""
import copy

import numpy as np

from mv.quiet import silenced
from mv.runner import Violation

KINDS = ["bond", "angle", "dihedral", "improper"]
SIZE = {"bond": 2, "angle": 3, "dihedral": 4, "improper": 4}
COEFF_ATTR = {"bond": "bond_type_coeffs", "angle": "angle_type_coeffs", "dihedral": "dihedral_type_coeffs",
              "improper": "improper_type_coeffs"}


def empty_spec():
    s = {"pos": [], "atom_types": [], "type_labels": [], "type_elements": [], "type_masses": [], "pair_coeffs": [],
         "charges": [], "groups": [], "cell": None, "extra_atom_labels": [], "extra_atom_fields": []}
    for k in KINDS:
        s[k + "s"] = []
        s[k + "_types"] = []
        s[k + "_coeffs"] = []
        s["extra_%s_labels" % k] = []
        s["extra_%s_fields" % k] = []
    return s


def caller_arrays(spec):
    """the per-atom data as numpy arrays owned by the caller (to be handed to several constructions)"""
    return {"atom_types": np.array(spec["atom_types"], dtype=int), "positions": np.array(spec["pos"], float).reshape(-1, 3),
            "charges": np.array(spec["charges"], dtype=float), "groups": np.array(spec["groups"], dtype=int)}


def _cell_arg(spec):
    """the cell as the caller writes it: a float array, or - for whole-number cells, spec["cell_form"] - nested lists of
    Python ints / an integer numpy array (Atoms(cell=[[10, 0, 0], [0, 12, 0], [0, 0, 15]]), np.diag([10, 12, 15]))"""
    form = spec.get("cell_form", "float")
    if not all(float(x).is_integer() and abs(x) < 1e6 for r in spec["cell"] for x in r):
        form = "float"      # the cell was rescaled / turned after it was drawn
    if form == "int-list":
        return [[int(round(x)) for x in r] for r in spec["cell"]]
    if form == "int-array":
        return np.array([[int(round(x)) for x in r] for r in spec["cell"]], dtype=int)
    return np.array(spec["cell"], float)


def build(spec, arrays=None):
    from mofun import Atoms
    kw = dict(atom_types=list(spec["atom_types"]), positions=np.array(spec["pos"], float).reshape(-1, 3),
              atom_type_elements=list(spec["type_elements"]), atom_type_labels=list(spec["type_labels"]),
              atom_type_masses=list(spec["type_masses"]), pair_coeffs=list(spec["pair_coeffs"]),
              charges=list(spec["charges"]), groups=list(spec["groups"]),
              cell=None if spec["cell"] is None else _cell_arg(spec),
              extra_atom_labels=list(spec["extra_atom_labels"]),
              extra_atom_fields=[list(r) for r in spec["extra_atom_fields"]] if spec["extra_atom_labels"] else [])
    for k in KINDS:
        kw[k + "s"] = [list(t) for t in spec[k + "s"]]
        if spec.get("term_arrays") == "fortran" and spec[k + "s"]:
            # index tables handed over as column-major integer arrays (built column by column / transposed by the caller)
            kw[k + "s"] = np.asfortranarray(np.array(spec[k + "s"], dtype=int))
        kw[k + "_types"] = list(spec[k + "_types"])
        kw[COEFF_ATTR[k]] = list(spec[k + "_coeffs"])
        kw["extra_%s_labels" % k] = list(spec["extra_%s_labels" % k])
        kw["extra_%s_fields" % k] = [list(r) for r in spec["extra_%s_fields" % k]] if spec["extra_%s_labels" % k] else []
    if arrays is not None:
        kw.update(arrays)
    with silenced():
        return Atoms(**kw)


def norm_coeff(text):
    """coefficient text compared token for token, comment separately"""
    body, sep, comment = str(text).partition("#")
    return (tuple(body.split()), comment.strip() if sep else None)


def norm_pair(text):
    """an empty pair-coefficient entry means 'no pair coefficients for this type'"""
    c = norm_coeff(text)
    return None if c == ((), None) else c


def model_from_spec(spec):
    atoms = []
    for i in range(len(spec["pos"])):
        t = spec["atom_types"][i]
        atoms.append({"tag": round(float(spec["charges"][i]), 9), "pos": [float(x) for x in spec["pos"][i]],
                      "label": spec["type_labels"][t], "el": spec["type_elements"][t], "mass": float(spec["type_masses"][t]),
                      "pair": norm_pair(spec["pair_coeffs"][t]) if spec["pair_coeffs"] else None,
                      "charge": float(spec["charges"][i]), "group": int(spec["groups"][i]),
                      "extra": {l: str(spec["extra_atom_fields"][i][j]) for j, l in enumerate(spec["extra_atom_labels"])}})
    terms = {}
    for k in KINDS:
        lst = []
        for n, t in enumerate(spec[k + "s"]):
            tid = spec[k + "_types"][n]
            lst.append({"tags": tuple(atoms[i]["tag"] for i in t),
                        "coeff": norm_coeff(spec[k + "_coeffs"][tid]) if spec[k + "_coeffs"] else ("untyped", int(tid)),
                        "extra": {l: str(spec["extra_%s_fields" % k][n][j]) for j, l in enumerate(spec["extra_%s_labels" % k])}})
        terms[k] = lst
    return {"atoms": atoms, "terms": terms, "cell": None if spec["cell"] is None else [list(map(float, r)) for r in spec["cell"]]}


def resolve(a, what="object", tags=None):
    """resolved view of a real Atoms object; raises Violation('inconsistent-object') when arrays disagree.
    tags: optional identity tag per atom index (default: the atom's charge)"""
    def bad(msg):
        raise Violation("inconsistent-object", "%s: %s" % (what, msg))
    N = len(a.positions)
    for name in ("atom_types", "charges", "groups", "extra_atom_fields"):
        if len(getattr(a, name)) != N:
            bad("%d positions but len(%s) = %d" % (N, name, len(getattr(a, name))))
    xal = list(a.extra_atom_labels)
    xaf = np.asarray(a.extra_atom_fields)
    if N and xaf.ndim == 2 and xaf.shape[1] != len(xal):
        bad("%d extra atom labels but extra_atom_fields has width %d" % (len(xal), xaf.shape[1]))
    labels, els, masses = list(a.atom_type_labels), list(a.atom_type_elements), list(a.atom_type_masses)
    pair = list(a.pair_coeffs)
    atoms = []
    for i in range(N):
        t = int(a.atom_types[i])
        if t < 0 or t >= len(labels) or t >= len(els) or t >= len(masses):
            bad("atom %d has type id %d but there are %d labels / %d elements / %d masses" % (i, t, len(labels), len(els), len(masses)))
        if pair and t >= len(pair):
            bad("atom %d has type id %d but the pair-coefficient table has %d rows" % (i, t, len(pair)))
        atoms.append({"tag": round(float(a.charges[i]), 9) if tags is None else tags[i], "pos": [float(x) for x in a.positions[i]],
                      "label": str(labels[t]), "el": str(els[t]), "mass": float(masses[t]),
                      "pair": norm_pair(pair[t]) if pair else None,
                      "charge": float(a.charges[i]), "group": int(a.groups[i]),
                      "extra": {l: str(xaf[i][j]) for j, l in enumerate(xal)}})
    # the per-atom element list the object reports (used by the search, bond detection and the CIF / ASE writers) is the
    # type table looked up through the per-atom types
    try:
        reported = [str(e) for e in a.elements]
    except Exception as e:
        bad(".elements raised %s: %r" % (type(e).__name__, e))
    if reported != [x["el"] for x in atoms]:
        bad(".elements reports %r, atom types and the type table give %r" % (reported[:12], [x["el"] for x in atoms][:12]))
    terms = {}
    for k in KINDS:
        arr = np.asarray(getattr(a, k + "s"))
        tids = np.asarray(getattr(a, k + "_types"))
        coeffs = list(getattr(a, COEFF_ATTR[k]))
        xl = list(getattr(a, "extra_%s_labels" % k))
        xf = np.asarray(getattr(a, "extra_%s_fields" % k))
        n = len(arr)
        if len(tids) != n:
            bad("%d %ss but %d %s type ids" % (n, k, len(tids), k))
        if len(xf) != n:
            bad("%d %ss but extra_%s_fields has %d rows" % (n, k, k, len(xf)))
        if n and xf.ndim == 2 and xf.shape[1] != len(xl):
            bad("%d extra %s labels but fields have width %d" % (len(xl), k, xf.shape[1]))
        lst = []
        if n:
            arr = arr.reshape(n, -1)
            if arr.shape[1] != SIZE[k]:
                bad("%s array has width %d" % (k, arr.shape[1]))
        for m in range(n):
            idx = [int(x) for x in arr[m]]
            if any(x < 0 or x >= N for x in idx):
                bad("%s %d refers to atoms %r but there are %d atoms" % (k, m, idx, N))
            tid = int(tids[m])
            if tid < 0:
                bad("%s %d has negative type id" % (k, m))
            if coeffs and tid >= len(coeffs):
                bad("%s %d has type id %d but the coefficient table has %d rows" % (k, m, tid, len(coeffs)))
            lst.append({"tags": tuple(atoms[i]["tag"] for i in idx),
                        "coeff": norm_coeff(coeffs[tid]) if coeffs else ("untyped", tid),
                        "extra": {l: str(xf[m][j]) for j, l in enumerate(xl)}})
        terms[k] = lst
    cell = None if a.cell is None else np.asarray(a.cell, float).tolist()
    return {"atoms": atoms, "terms": terms, "cell": cell}


# ---------------------------------------------------------------------------------------------------------------------
# comparison

def canon_tags(tags):
    t = tuple(tags)
    r = t[::-1]
    return t if repr(t) <= repr(r) else r


def compare_atoms(got, want, what, pos_tol=1e-9, ordered=True, fields=("label", "el", "mass", "pair", "charge", "group", "extra")):
    if len(got) != len(want):
        raise Violation("atom-count", "%s: %d atoms, expected %d" % (what, len(got), len(want)))
    if not ordered:
        got = sorted(got, key=lambda r: repr(r["tag"]))
        want = sorted(want, key=lambda r: repr(r["tag"]))
    for i, (g, w) in enumerate(zip(got, want)):
        if g["tag"] != w["tag"]:
            raise Violation("atom-order", "%s: atom %d is the atom tagged %r, expected the one tagged %r (order of atoms: %r, "
                            "expected %r)" % (what, i, g["tag"], w["tag"], [x["tag"] for x in got], [x["tag"] for x in want]))
        if pos_tol is not None and max(abs(x - y) for x, y in zip(g["pos"], w["pos"])) > pos_tol:
            raise Violation("atom-position", "%s: atom %d (tag %r) at %r, expected %r" % (what, i, g["tag"], g["pos"], w["pos"]))
        for f in fields:
            gv, wv = g[f], w[f]
            if f == "mass":
                ok = abs(gv - wv) <= 1e-9 * max(1.0, abs(wv))
            else:
                ok = gv == wv
            if not ok:
                raise Violation("atom-" + f, "%s: atom %d (tag %r) resolves to %s %r, it was defined with %r" % (what, i, g["tag"], f, gv, wv))


def term_key(t, with_coeff=True, with_extra=True, directed=False):
    tags = tuple(t["tags"]) if directed else canon_tags(t["tags"])
    return (tags, t["coeff"] if with_coeff else None, tuple(sorted(t["extra"].items())) if with_extra else None)


def compare_terms(got, want, what, ordered=False, with_extra=True, untyped_by_class=False):
    """multiset comparison of resolved terms per kind (tags up to reversal, coefficient text, extra fields)"""
    for k in KINDS:
        g, w = got[k], want[k]
        if untyped_by_class:
            g, w = _untyped_classes(g), _untyped_classes(w)
        # bonds, angles and dihedrals are the same term when listed backwards; an improper is not (the position of the
        # central atom is meaningful), so impropers are compared as listed
        gk = [term_key(t, with_extra=with_extra, directed=(k == "improper")) for t in g]
        wk = [term_key(t, with_extra=with_extra, directed=(k == "improper")) for t in w]
        if ordered:
            if gk != wk:
                raise Violation(k + "-terms", "%s: %ss (in order) %r, expected %r" % (what, k, _short(gk), _short(wk)))
        elif sorted(gk, key=repr) != sorted(wk, key=repr):
            extra = [x for x in gk if x not in wk]
            miss = [x for x in wk if x not in gk]
            raise Violation(k + "-terms", "%s: %d %ss, expected %d; unexpected %r; missing %r" %
                            (what, len(gk), k, len(wk), _short(extra), _short(miss)))


def _untyped_classes(terms):
    """replace ('untyped', id) by ('untyped-class', canonical class index) so that only the partition matters"""
    ids = {}
    out = []
    for t in terms:
        c = t["coeff"]
        if isinstance(c, tuple) and len(c) == 2 and c[0] == "untyped":
            ids.setdefault(c[1], len(ids))
    # canonical: order classes by the smallest canonical tag tuple they contain
    firsts = {}
    for t in terms:
        c = t["coeff"]
        if isinstance(c, tuple) and len(c) == 2 and c[0] == "untyped":
            key = repr(canon_tags(t["tags"]))
            if c[1] not in firsts or key < firsts[c[1]]:
                firsts[c[1]] = key
    order = {tid: n for n, tid in enumerate(sorted(firsts, key=lambda x: firsts[x]))}
    for t in terms:
        c = t["coeff"]
        if isinstance(c, tuple) and len(c) == 2 and c[0] == "untyped":
            t = dict(t, coeff=("untyped-class", order[c[1]]))
        out.append(t)
    return out


def _short(x, n=4):
    return x[:n] if len(x) > n else x


# ---------------------------------------------------------------------------------------------------------------------
# model operations, each written from the property statements

def m_copy(m):
    return copy.deepcopy(m)


def m_delete(m, indices):
    """C10: remove exactly these atoms and every term touching one of them; keep order"""
    dead = {m["atoms"][i]["tag"] for i in indices}
    out = {"atoms": [a for a in m["atoms"] if a["tag"] not in dead], "cell": m["cell"], "terms": {}}
    for k in KINDS:
        out["terms"][k] = [t for t in m["terms"][k] if not (set(t["tags"]) & dead)]
    return copy.deepcopy(out)


def m_subset(m, indices):
    """__getitem__: the listed atoms in the listed order with their full resolution, no terms, no extra columns"""
    out = {"atoms": [copy.deepcopy(m["atoms"][i]) for i in indices], "cell": m["cell"], "terms": {k: [] for k in KINDS}}
    for a in out["atoms"]:
        a["extra"] = {}
    return out


def m_replicate(m, r):
    """C12: images appended; every atom at pos + iA + jB + kC; terms copied within each image; cell rows scaled.
    Tags of image atoms: (tag, i, j, k) - returned as a tag map because real charges are not unique any more."""
    cell = np.array(m["cell"], float)
    out = {"atoms": [], "terms": {k: [] for k in KINDS}, "cell": (np.array(r, float)[:, None] * cell).tolist()}
    images = [(i, j, k) for i in range(r[0]) for j in range(r[1]) for k in range(r[2])]
    for img in images:
        off = np.array(img, float) @ cell
        for a in m["atoms"]:
            b = copy.deepcopy(a)
            b["pos"] = (np.array(a["pos"]) + off).tolist()
            b["tag"] = (a["tag"],) + img
            out["atoms"].append(b)
        for k in KINDS:
            for t in m["terms"][k]:
                u = copy.deepcopy(t)
                u["tags"] = tuple((x,) + img for x in t["tags"])
                out["terms"][k].append(u)
    return out


def m_extend(m, o, index_map=None, shared_ids=False):
    """C11.  index_map: other index -> self index (atoms declared identical).  Appended atoms in order; mapped atoms adopt
    the other's type (label, element, mass, pair text) and per-atom extra fields; every term of other added between the
    corresponding atoms; an existing term on exactly the same atoms (forwards or backwards) is superseded; extra columns
    merged by label with '.' filling.  shared_ids: type ids supplied as already shared (offset 0): the new atoms/terms
    resolve through *self's* tables - the caller passes an `o` model already resolved that way."""
    index_map = {int(k): int(v) for k, v in (index_map or {}).items()}
    out = copy.deepcopy(m)
    all_labels = list(dict.fromkeys([l for a in m["atoms"] for l in a["extra"]] + [l for a in o["atoms"] for l in a["extra"]]))
    # note: label sets are structure-level; when a structure has no atoms the caller passes labels explicitly
    tagmap = {}
    for j, b in enumerate(o["atoms"]):
        if j in index_map:
            tgt = out["atoms"][index_map[j]]
            for f in ("label", "el", "mass", "pair"):
                tgt[f] = copy.deepcopy(b[f])
            tgt["extra_from_other"] = dict(b["extra"])
            tagmap[b["tag"]] = tgt["tag"]
        else:
            nb = copy.deepcopy(b)
            out["atoms"].append(nb)
            tagmap[b["tag"]] = nb["tag"]
    for k in KINDS:
        new = []
        for t in o["terms"][k]:
            u = copy.deepcopy(t)
            u["tags"] = tuple(tagmap[x] for x in t["tags"])
            new.append(u)
        newkeys = {canon_tags(u["tags"]) for u in new}
        out["terms"][k] = [t for t in out["terms"][k] if canon_tags(t["tags"]) not in newkeys] + new
    return out


def merge_extra(m, self_labels, other_labels, n_self_atoms, mapped_self_indices, kind_labels):
    """fill '.' for missing extra values after an extend: atoms.  self_labels/other_labels: ordered label lists"""
    labels = list(dict.fromkeys(list(self_labels) + list(other_labels)))
    for i, a in enumerate(m["atoms"]):
        if "extra_from_other" in a:
            src = a.pop("extra_from_other")
            a["extra"] = {l: src.get(l, ".") for l in labels}
        else:
            a["extra"] = {l: a["extra"].get(l, ".") for l in labels}
    for k in KINDS:
        sl, ol = kind_labels[k]
        kl = list(dict.fromkeys(list(sl) + list(ol)))
        for t in m["terms"][k]:
            t["extra"] = {l: t["extra"].get(l, ".") for l in kl}
    return m
