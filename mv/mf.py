"""Thin adapters that build mofun objects from JSON-able cases and call mofun with seeded RNGs."""
import random

import numpy as np

from mv.quiet import silenced
from mv.runner import Violation


def atoms_from(pos, els, cell=None, **kw):
    from mofun import Atoms
    with silenced():
        if len(pos) == 0:
            return Atoms()
        return Atoms(elements=list(els), positions=np.array(pos, dtype=float),
                     cell=None if cell is None else np.array(cell, dtype=float), **kw)


def seed_rngs(seeds):
    random.seed(seeds[0])
    np.random.seed(seeds[1] % (2 ** 32))


def _well_formed(res, positions, what):
    """the documented return forms: a list of index tuples, or (indices, positions, rotations) of equal lengths"""
    def is_index_list(x):
        try:
            return all(all(int(i) == i and not hasattr(i, "__len__") for i in m) for m in x)
        except Exception:
            return False
    if positions:
        if not (isinstance(res, tuple) and len(res) == 3 and is_index_list(res[0])):
            raise Violation("malformed-result", "%s: positions and rotations requested, got %.200r" % (what, res))
    elif isinstance(res, tuple) and len(res) == 3 and not is_index_list(res) or not is_index_list(res):
        raise Violation("malformed-result", "%s: only indices requested, got %.200r" % (what, res))
    return res


def find(structure, pattern, atol, hints=(None, None, None), seeds=(0, 0), positions=False, what="search", form="keyword"):
    """returns list of index tuples, or (indices, positions, rotations) ; any exception is a violation.
    form="positional": every argument passed by position in the documented order
    (structure, pattern, axisp1_idx, axisp2_idx, opoint_idx, return_positions_and_quats, atol)"""
    from mofun import find_pattern_in_structure
    if form == "positional":
        seed_rngs(seeds)
        try:
            with silenced():
                res = find_pattern_in_structure(structure, pattern, hints[0], hints[1], hints[2], positions, atol)
            return _well_formed(res, positions, what + " (positional call)")
        except Violation:
            raise
        except Exception as e:
            raise Violation("exception-in-" + what, "%s: %r (positional call, hints=%r)" % (type(e).__name__, e, list(hints)),
                            data={"exc": type(e).__name__})
    kw = {}
    if hints[0] is not None:
        kw["axisp1_idx"] = hints[0]
    if hints[1] is not None:
        kw["axisp2_idx"] = hints[1]
    if hints[2] is not None:
        kw["opoint_idx"] = hints[2]
    seed_rngs(seeds)
    try:
        with silenced():
            res = find_pattern_in_structure(structure, pattern, atol=atol, return_positions_and_quats=positions, **kw)
        return _well_formed(res, positions, what)
    except Violation:
        raise
    except Exception as e:
        import traceback
        tb = traceback.extract_tb(e.__traceback__)
        site = "%s:%s" % (tb[-1].filename.split("/")[-1], tb[-1].name) if tb else "?"
        raise Violation("exception-in-" + what, "%s: %r at %s (hints=%r)" % (type(e).__name__, e, site, list(hints)),
                        data={"exc": type(e).__name__, "site": site})


def replace(structure, search, repl, atol, hints=(None, None, None), seeds=(0, 0), what="replace", form="keyword", **kw):
    """form="positional": all thirteen documented parameters passed by position, in the documented order"""
    from mofun import replace_pattern_in_structure
    if form == "positional":
        seed_rngs(seeds)
        with silenced():
            return replace_pattern_in_structure(structure, search, repl, kw.get("replace_fraction", 1.0), atol, hints[0], hints[1],
                                                hints[2], kw.get("return_num_matches", False), kw.get("replace_all", False), False,
                                                0.1, kw.get("ignore_atoms_should_not_be_deleted_twice", False))
    if hints[0] is not None:
        kw["axisp1_idx"] = hints[0]
    if hints[1] is not None:
        kw["axisp2_idx"] = hints[1]
    if hints[2] is not None:
        kw["opoint_idx"] = hints[2]
    seed_rngs(seeds)
    with silenced():
        return replace_pattern_in_structure(structure, search, repl, atol=atol, **kw)


def snapshot(a):
    """deep snapshot of every public array of an Atoms object, for immutability comparisons"""
    out = {}
    for k, v in vars(a).items():
        if k.startswith("_"):
            continue            # private attributes (lazily filled caches) are not part of what the caller handed over
        if isinstance(v, np.ndarray):
            out[k] = ("nd", v.dtype.str, v.shape, v.tolist())
        elif v is None:
            out[k] = None
        else:
            try:
                out[k] = ("list", [x for x in v])
            except TypeError:
                out[k] = ("val", repr(v))
    return out


def scribble(a):
    """overwrite every public numpy array of an Atoms object in place (used to detect arrays shared with another object)"""
    for k, v in vars(a).items():
        if isinstance(v, np.ndarray) and v.size:
            try:
                if v.dtype.kind in "fc":
                    v += 1234.5
                elif v.dtype.kind in "iu":
                    v += 7
                elif v.dtype.kind in "UO":
                    v[...] = "scribbled"
            except Exception:
                pass
        elif isinstance(v, list) and v and isinstance(v[0], str):
            for i in range(len(v)):
                v[i] = "scribbled"
