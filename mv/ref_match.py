"""Brute-force reference matcher (C01/C02/C03 and every oracle that needs the pattern<->atom correspondence).

Three-valued: every complete ordered candidate is classified clear-in / grey / clear-out (DESIGN 3.2):
  clear-out : some pair distance off by more than 2*sqrt(3)*atol + 1e-6, or best proper Kabsch RMSD >
              sqrt(3)*(1.01*atol + 1e-5*max|x|) + 1e-6
  clear-in  : best proper Kabsch fit has max per-atom deviation <= atol/16
  grey      : everything else
"""
import math

import numpy as np

from mv import geom

SQ3 = math.sqrt(3.0)


def t_out(atol):
    return 2 * SQ3 * atol + 1e-6


def classify(P, Y, atol, in_thr=None):
    """classify an ordered candidate (pattern coords P, image coords Y). returns (cls, maxdev, rmsd).
    in_thr overrides the clear-in threshold atol/16 (used with user hints whose lever arm is worse than the automatic
    choice: clear-in then means max deviation * amplification <= atol/2)"""
    if in_thr is None:
        in_thr = atol / 16.0
    P = np.asarray(P, float)
    Y = np.asarray(Y, float)
    n = len(P)
    if n > 1:
        dp = np.sqrt(((P[:, None] - P[None]) ** 2).sum(-1))
        dy = np.sqrt(((Y[:, None] - Y[None]) ** 2).sum(-1))
        if np.abs(dp - dy).max() > t_out(atol):
            return "out", float("inf"), float("inf")
    R, t, rmsd, maxdev = geom.kabsch(P, Y)
    if maxdev <= in_thr:
        return "in", maxdev, rmsd
    lim = SQ3 * (1.01 * atol + 1e-5 * float(np.abs(Y).max())) + 1e-6
    if rmsd > lim:
        return "out", maxdev, rmsd
    # one misplaced atom among many is averaged away by the RMSD; a certified lower bound on the minimax deviation (no
    # proper rigid motion brings every atom closer than this) decides those
    if n > 2 and maxdev > lim and geom.minimax_lower_bound(P, Y) > lim:
        return "out", maxdev, rmsd
    return "grey", maxdev, rmsd


class TooAmbiguous(Exception):
    """more complete candidates than the budget: the case is skipped and counted, never judged"""


def find_all(cell, positions, elements, ppos, pels, atol, max_candidates=20000, in_thr=None):
    """returns {group_key: {"cls": "in"|"grey", "orderings": [ {"idx": [...], "pos": ndarray, "cls", "maxdev", "rmsd"} ]}}
    group_key = tuple(sorted(atom indices)). Orderings classified clear-out are not listed; groups whose every ordering
    is clear-out are absent."""
    cell = np.asarray(cell, float)
    positions = np.asarray(positions, float)
    ppos = np.asarray(ppos, float)
    n = len(ppos)
    N = len(positions)
    T = t_out(atol)
    dp = np.sqrt(((ppos[:, None] - ppos[None]) ** 2).sum(-1)) if n > 0 else np.zeros((0, 0))
    diam = float(dp.max()) if n > 1 else 0.0
    Rmax = diam + T
    imgs = geom.image_block(2)
    offs = imgs @ cell                                   # (125,3)
    allpos = (positions[None, :, :] + offs[:, None, :]).reshape(-1, 3)   # index = img*N + atom
    allatom = np.tile(np.arange(N), len(imgs))
    elements = list(elements)
    pels = list(pels)
    groups = {}
    ncand = 0
    nnodes = 0
    for a in range(N):
        if elements[a] != pels[0]:
            continue
        anchor = positions[a]
        if n == 1:
            _add(groups, [a], np.array([anchor]), ppos, atol, in_thr)
            continue
        d = np.sqrt(((allpos - anchor) ** 2).sum(-1))
        near = np.nonzero(d <= Rmax)[0]
        npos = allpos[near]
        natom = allatom[near]
        nel = [elements[j] for j in natom]
        # pairwise distances among near candidates
        dn = np.sqrt(((npos[:, None] - npos[None]) ** 2).sum(-1))
        d_anchor = d[near]
        # candidates per pattern position by element and distance to anchor
        per_pos = []
        for i in range(1, n):
            ok = [c for c in range(len(near)) if nel[c] == pels[i] and natom[c] != a and abs(d_anchor[c] - dp[i, 0]) <= T]
            per_pos.append(ok)
        stack = [[]]
        # iterative DFS
        def rec(assigned):
            nonlocal ncand, nnodes
            nnodes += 1
            if nnodes > 15 * max_candidates:
                raise TooAmbiguous()
            i = len(assigned) + 1
            if i == n:
                ncand += 1
                if ncand > max_candidates:
                    raise TooAmbiguous()
                idx = [a] + [int(natom[c]) for c in assigned]
                Y = np.vstack([anchor] + [npos[c] for c in assigned])
                _add(groups, idx, Y, ppos, atol, in_thr)
                return
            for c in per_pos[i - 1]:
                ok = True
                for j, cj in enumerate(assigned):
                    if natom[cj] == natom[c] or abs(dn[c, cj] - dp[i, j + 1]) > T:
                        ok = False
                        break
                if ok:
                    rec(assigned + [c])
        rec([])
    for g in groups.values():
        g["cls"] = "in" if any(o["cls"] == "in" for o in g["orderings"]) else "grey"
    return groups


def _add(groups, idx, Y, ppos, atol, in_thr=None):
    cls, maxdev, rmsd = classify(ppos, Y, atol, in_thr)
    if cls == "out":
        return
    key = tuple(sorted(idx))
    g = groups.setdefault(key, {"orderings": []})
    g["orderings"].append({"idx": list(idx), "pos": Y, "cls": cls, "maxdev": maxdev, "rmsd": rmsd})


def in_threshold(ppos, hints, atol):
    """clear-in threshold for a hint list: atol/16 for the automatic choice (amplification <= 8), tighter when user
    hints have a worse lever arm"""
    from mv.gen_geom import effective_hints, lever_bound
    if len(ppos) < 2 or all(h is None for h in hints):
        return atol / 16.0
    ap1, ap2, op = effective_hints(ppos, hints)
    amp = lever_bound(ppos, ap1, ap2, op)
    return min(atol / 16.0, atol / (2.0 * amp))
