"""Runner: tiers, seeds, worker sharding, evidence writer, replay writer, known-findings logic.

A property module (props/cXX.py) exposes

    PROPERTY = "C01"
    RULE     = "how cases are generated and what makes one non-trivial"
    PARTS    = [HypPart(...), EnumPart(...), MachinePart(...)]
    KNOWN_SIGS = {finding_id: predicate(part_name, case, violation) -> bool}     (optional)
    ASSUMPTIONS = [...]                                                            (optional)

Every *case* is a plain JSON-able value (dict/list/str/float/int/bool/None); the oracle rebuilds
whatever objects it needs from it, so a replay file is just the case written out.
"""
import hashlib
import importlib
import json
import multiprocessing
import os
import sys
import time
import traceback
import zlib

HERE = os.path.dirname(os.path.dirname(os.path.abspath(__file__)))
NWORKERS = int(os.environ.get("VERIF_WORKERS", "16"))


class Violation(Exception):
    """Raised by an oracle when the property is violated on the case."""

    def __init__(self, kind, detail="", data=None):
        super().__init__("%s: %s" % (kind, detail))
        self.kind = kind
        self.detail = detail
        self.data = data

    def to_json(self):
        return {"kind": self.kind, "detail": str(self.detail)[:4000]}


class HarnessError(Exception):
    """The harness (generator / reference / model) is wrong; exit 2, never a VIOLATION."""


class Stats:
    def __init__(self):
        self.evaluations = 0
        self.counters = {}
        self.nontrivial = set()
        self.samples = []
        self.known = {}
        self.budget_skipped = 0
        # for enumerations that are distinct by construction and too large to hash case by case
        self.extra_nontrivial = 0

    def count(self, key, n=1):
        self.counters[key] = self.counters.get(key, 0) + n

    def mark_nontrivial(self, case, sample=None, max_samples=3):
        h = case_hash(case)
        if h not in self.nontrivial:
            self.nontrivial.add(h)
            if len(self.samples) < max_samples:
                self.samples.append(sample if sample is not None else case)

    def merge(self, other):
        self.evaluations += other.evaluations
        self.budget_skipped += other.budget_skipped
        self.extra_nontrivial += other.extra_nontrivial
        for k, v in other.counters.items():
            self.counters[k] = self.counters.get(k, 0) + v
        for k, v in other.known.items():
            self.known[k] = self.known.get(k, 0) + v
        self.nontrivial |= other.nontrivial
        for s in other.samples:
            if len(self.samples) < 5:
                self.samples.append(s)


def case_hash(case):
    return hashlib.sha1(json.dumps(case, sort_keys=True, default=_json_default).encode()).hexdigest()[:16]


def _json_default(o):
    import numpy as np
    if isinstance(o, np.ndarray):
        return o.tolist()
    if isinstance(o, (np.integer,)):
        return int(o)
    if isinstance(o, (np.floating,)):
        return float(o)
    if isinstance(o, (np.bool_,)):
        return bool(o)
    if isinstance(o, (set, frozenset, tuple)):
        return list(o)
    raise TypeError("not JSON-able: %r" % type(o))


def jsonable(case):
    return json.loads(json.dumps(case, default=_json_default))


class HypPart:
    """A Hypothesis-driven part.  strategy(tier) -> SearchStrategy of JSON-able cases."""
    kind = "hyp"

    def __init__(self, name, strategy, oracle, examples, weight=1.0):
        self.name = name
        self.strategy = strategy
        self.oracle = oracle
        self.examples = examples  # {"quick": n, "thorough": m}


class EnumPart:
    """A finite enumeration.  cases(tier, seed) -> list of JSON-able cases (deterministic).
    exhaustive(tier) says whether the enumeration covers its finite domain completely."""
    kind = "enum"

    def __init__(self, name, cases, oracle, exhaustive=lambda tier: True, chunk=200):
        self.name = name
        self.cases = cases
        self.oracle = oracle
        self.exhaustive = exhaustive
        self.chunk = chunk


class FuzzPart:
    """coverage-guided second engine (thorough tier only): atheris/libFuzzer drives Hypothesis' fuzz_one_input of an
    existing HypPart (same strategy, same oracle) with coverage feedback from the instrumented mofun package.
    runs = libFuzzer executions per worker process."""
    kind = "fuzz"
    tiers = ("thorough",)

    def __init__(self, name, hyp_part, runs=4000, workers=16):
        self.name = name
        self.hyp_part = hyp_part
        self.runs = runs
        self.workers = workers


class MachinePart:
    """A Hypothesis RuleBasedStateMachine.  factory(stats, tier) -> machine class.  The machine records its history
    (JSON-able list of steps) in self.history and raises Violation from rules/invariants; replay(history, stats)
    re-executes a recorded history without Hypothesis."""
    kind = "machine"

    def __init__(self, name, factory, replay, runs, steps):
        self.name = name
        self.factory = factory
        self.oracle = replay
        self.runs = runs      # {"quick": n, "thorough": m}
        self.steps = steps    # {"quick": n, "thorough": m}


# ---------------------------------------------------------------------------------------------------------------------

def derive_seed(seed, *parts):
    return zlib.crc32(("%d|%s" % (seed, "|".join(str(p) for p in parts))).encode()) & 0x7FFFFFFF


def load_known(prop):
    path = os.path.join(HERE, "known_findings.json")
    if not os.path.exists(path):
        return []
    with open(path) as f:
        entries = json.load(f)["findings"]
    return [e for e in entries if e.get("status") == "known" and prop in ([e.get("property")] + e.get("also_seen_by", []))]


def match_known(mod, active_ids, part_name, case, v):
    sigs = getattr(mod, "KNOWN_SIGS", {})
    hits = []
    for fid in active_ids:
        pred = sigs.get(fid)
        if pred is None:
            continue
        try:
            if pred(part_name, case, v):
                hits.append(fid)
        except Exception:
            pass
    if len(hits) == 1:
        return hits[0]
    return None


def _quiet():
    devnull = open(os.devnull, "w")
    sys.stdout = devnull
    sys.stderr = devnull


def _load_mod(prop):
    repo = os.environ.get("VERIF_REPO")
    if repo and repo not in sys.path[:1]:
        sys.path.insert(0, repo)
    if HERE not in sys.path:
        sys.path.insert(0, HERE)
    return importlib.import_module("props.%s" % prop.lower())


def _get_part(mod, name):
    for p in mod.PARTS:
        if p.name == name:
            return p
    raise HarnessError("no part %s in %s" % (name, mod.__name__))


def run_oracle(part, case, stats):
    """Calls the part's oracle.  The generators produce inputs of the property's domain only and every exception a property
    allows is caught by its oracle, so an exception that escapes from *library* code is a violation of the property ("handled,
    not crashed"), not a harness fault; one that is raised by harness code stays a harness error."""
    try:
        return part.oracle(case, stats)
    except Violation:
        raise
    except Exception as e:
        import mofun
        lib = os.path.dirname(os.path.abspath(mofun.__file__)) + os.sep
        here = os.path.dirname(os.path.dirname(os.path.abspath(__file__))) + os.sep
        for fr in reversed(traceback.extract_tb(e.__traceback__)):
            f = os.path.abspath(fr.filename)
            if f.startswith(lib):
                raise Violation("exception-in-library", "%s: %r raised in %s:%d (%s) for an input of the property's domain" %
                                (type(e).__name__, e, os.path.basename(f), fr.lineno, fr.name),
                                data={"exc": type(e).__name__, "site": "%s:%s" % (os.path.basename(f), fr.name)})
            if f.startswith(here):
                break
        raise


def _worker(args):
    """Runs in a pool process.  Returns a dict with stats and (optionally) a failure."""
    prop, part_name, tier, seed, widx, n, t_end, active_known, payload = args
    _quiet()
    out = {"stats": None, "failure": None, "error": None}
    stats = Stats()
    try:
        mod = _load_mod(prop)
        part = _get_part(mod, part_name)
        if part.kind == "enum":
            for case in payload:
                if time.time() > t_end:
                    stats.budget_skipped += 1
                    continue
                stats.evaluations += 1
                try:
                    run_oracle(part, case, stats)
                except Violation as v:
                    fid = match_known(mod, active_known, part_name, case, v)
                    if fid:
                        stats.known[fid] = stats.known.get(fid, 0) + 1
                        continue
                    out["failure"] = {"case": jsonable(case), "violation": v.to_json()}
                    break
        elif part.kind == "hyp":
            out["failure"] = _run_hyp(mod, part, tier, seed, widx, n, t_end, active_known, stats)
        elif part.kind == "machine":
            out["failure"] = _run_machine(mod, part, tier, seed, widx, n, t_end, active_known, stats)
    except BaseException:
        out["error"] = traceback.format_exc()
    out["stats"] = stats
    return out


def _hyp_settings(n, tier, **kw):
    from hypothesis import settings, HealthCheck, Phase
    phases = [Phase.generate, Phase.shrink]
    return settings(max_examples=max(1, n), database=None, deadline=None, report_multiple_bugs=False,
                    derandomize=False, phases=phases,
                    suppress_health_check=list(HealthCheck), **kw)


def _run_hyp(mod, part, tier, seed, widx, n, t_end, active_known, stats):
    from hypothesis import given, seed as hseed
    import hypothesis.errors
    failing = []

    def body(case):
        if time.time() > t_end:
            stats.budget_skipped += 1
            return
        stats.evaluations += 1
        try:
            run_oracle(part, case, stats)
        except Violation as v:
            fid = match_known(mod, active_known, part.name, case, v)
            if fid:
                stats.known[fid] = stats.known.get(fid, 0) + 1
                return
            failing.append((jsonable(case), v.to_json()))
            raise

    test = hseed(derive_seed(seed, mod.PROPERTY, part.name, widx))(
        _hyp_settings(n, tier)(given(part.strategy(tier))(body)))
    try:
        test()
    except Violation:
        case, v = failing[-1]
        return {"case": case, "violation": v}
    except hypothesis.errors.Flaky:
        if failing:
            case, v = min(failing, key=lambda cv: len(json.dumps(cv[0])))
            v = dict(v)
            v["detail"] = "(flaky under hypothesis replay) " + v["detail"]
            return {"case": case, "violation": v}
        raise
    return None


def _run_machine(mod, part, tier, seed, widx, n, t_end, active_known, stats):
    from hypothesis import seed as hseed
    from hypothesis.stateful import run_state_machine_as_test
    import hypothesis.errors
    failing = []
    ctx = {"t_end": t_end, "failing": failing, "active_known": active_known, "mod": mod, "part": part}
    machine = part.factory(stats, tier, ctx)
    machine = hseed(derive_seed(seed, mod.PROPERTY, part.name, widx))(machine)
    st = _hyp_settings(n, tier, stateful_step_count=part.steps[tier])
    try:
        run_state_machine_as_test(machine, settings=st)
    except Violation:
        case, v = failing[-1]
        return {"case": case, "violation": v}
    except hypothesis.errors.Flaky:
        if failing:
            case, v = min(failing, key=lambda cv: len(json.dumps(cv[0])))
            return {"case": case, "violation": v}
        raise
    return None


# ---------------------------------------------------------------------------------------------------------------------

def _run_fuzz(prop, part, seed):
    import shutil
    import subprocess
    from concurrent.futures import ThreadPoolExecutor
    out = {"stats": Stats(), "failure": None, "error": None, "note": ""}
    deps = os.path.join(HERE, ".deps")
    chk = subprocess.run([sys.executable, "-c", "import sys; sys.path.insert(0, %r); import atheris" % deps],
                         stdout=subprocess.DEVNULL, stderr=subprocess.DEVNULL)
    if chk.returncode != 0:
        subprocess.run([sys.executable, "-m", "pip", "install", "-q", "--no-index", "--find-links", "/opt/veriftools/wheels",
                        "--target", deps, "atheris"], stdout=subprocess.DEVNULL, stderr=subprocess.DEVNULL)
        chk = subprocess.run([sys.executable, "-c", "import sys; sys.path.insert(0, %r); import atheris" % deps],
                             stdout=subprocess.DEVNULL, stderr=subprocess.DEVNULL)
    if chk.returncode != 0:
        out["note"] = "(atheris not installable here: part skipped)"
        return out
    base = os.path.join(HERE, ".work", "fuzz", "%s-%s" % (prop, part.name))
    shutil.rmtree(base, ignore_errors=True)
    os.makedirs(base)

    def one(i):
        corpus = os.path.join(base, "corpus%d" % i)
        sj = os.path.join(base, "stats%d.json" % i)
        p = subprocess.run([sys.executable, os.path.join(HERE, "tools", "fuzz_child.py"), prop, part.hyp_part, str(part.runs),
                            str(derive_seed(seed, prop, part.name, i)), corpus, sj],
                           stdout=subprocess.PIPE, stderr=subprocess.PIPE, text=True)
        return i, p.returncode, p.stdout, p.stderr, sj

    with ThreadPoolExecutor(part.workers) as ex:
        for i, rc, so, se, sj in ex.map(one, range(part.workers)):
            m = None
            for line in so.splitlines():
                if line.startswith("VIOLATION-CASE "):
                    m = line.split(" ", 1)[1].strip()
            if os.path.exists(sj):
                d = json.load(open(sj))
                st = Stats()
                st.evaluations = d["evaluations"]
                st.nontrivial = set(d["nontrivial"])
                st.counters = d["counters"]
                st.samples = d["samples"]
                st.known = d.get("known", {})
                out["stats"].merge(st)
            if m and out["failure"] is None:
                body = json.load(open(m))
                out["failure"] = {"case": body["case"], "violation": body["violation"]}
            elif rc != 0 and not m and out["error"] is None:
                out["error"] = "fuzz child %d exited %d\n%s" % (i, rc, se[-1500:])
    out["note"] = "%d processes x %d executions" % (part.workers, part.runs)
    shutil.rmtree(base, ignore_errors=True)
    return out


def write_replay(prop, part_name, failure):
    os.makedirs(os.path.join(HERE, "replays"), exist_ok=True)
    body = {"property": prop, "part": part_name, "case": failure["case"], "violation": failure["violation"]}
    digest = hashlib.sha1(json.dumps(body, sort_keys=True).encode()).hexdigest()[:10]
    path = os.path.join(HERE, "replays", "%s-%s.json" % (prop, digest))
    with open(path, "w") as f:
        json.dump(body, f, indent=1, sort_keys=True)
    return path


def replay_file(prop, path, quiet=True):
    """Returns None if the oracle passes on the replayed case, else a Violation."""
    mod = _load_mod(prop)
    with open(path) as f:
        body = json.load(f)
    part = _get_part(mod, body["part"])
    active = [e["id"] for e in load_known(prop)]
    old = sys.stdout, sys.stderr
    if quiet:
        _quiet()
    try:
        try:
            run_oracle(part, body["case"], Stats())
        except Violation as v:
            if match_known(mod, active, part.name, body["case"], v):
                return None
            return v
    finally:
        sys.stdout, sys.stderr = old
    return None


def run_check(prop, tier, seed):
    t0 = time.time()
    budget = float(os.environ.get("VERIF_BUDGET_S", "0") or 0)
    t_end = t0 + budget if budget > 0 else float("inf")
    mod = _load_mod(prop)
    known_entries = load_known(prop)
    active = [e["id"] for e in known_entries]
    total = Stats()
    per_part = {}
    exhaustive_flags = {}
    failure = None  # (part_name, failure dict, replay path)

    # 1. regressions first, bypassing Hypothesis
    regdir = os.path.join(HERE, "regressions")
    nreg = 0
    for fn in sorted(os.listdir(regdir)) if os.path.isdir(regdir) else []:
        if fn.startswith(prop + "-") and fn.endswith(".json"):
            nreg += 1
            v = replay_file(prop, os.path.join(regdir, fn))
            if v is not None:
                print("VIOLATION property=%s replay=%s" % (prop, os.path.join(regdir, fn)))
                print("  regression replay failed: %s" % v)
                _write_evidence(mod, prop, tier, seed, total, per_part, exhaustive_flags, time.time() - t0, 1, nreg, False)
                return 1
    ctx = multiprocessing.get_context("fork")
    parts = [p for p in mod.PARTS if getattr(p, "tiers", ("quick", "thorough")).__contains__(tier)]
    if os.environ.get("VERIF_PARTS"):        # debugging aid: run only the named parts
        parts = [p for p in parts if p.name in os.environ["VERIF_PARTS"].split(",")]
    for part in parts:
        jobs = []
        if part.kind == "enum":
            cases = part.cases(tier, seed)
            if not isinstance(cases, list):
                cases = list(cases)
            exhaustive_flags[part.name] = bool(part.exhaustive(tier))
            chunk = max(1, min(part.chunk, (len(cases) + NWORKERS - 1) // NWORKERS))
            for i in range(0, len(cases), chunk):
                jobs.append((prop, part.name, tier, seed, i // chunk, 0, t_end, active, cases[i:i + chunk]))
        elif part.kind == "hyp":
            n = part.examples[tier]
            w = max(1, min(NWORKERS, n // 20 or 1))
            for i in range(w):
                jobs.append((prop, part.name, tier, seed, i, (n + w - 1) // w, t_end, active, None))
        elif part.kind == "machine":
            n = part.runs[tier]
            w = max(1, min(NWORKERS, n // 5 or 1))
            for i in range(w):
                jobs.append((prop, part.name, tier, seed, i, (n + w - 1) // w, t_end, active, None))
        pstats = Stats()
        if part.kind == "fuzz":
            fres = _run_fuzz(prop, part, seed)
            if fres.get("error"):
                print("HARNESS-ERROR property=%s part=%s\n%s" % (prop, part.name, fres["error"]))
                return 2
            pstats = fres["stats"]
            if fres.get("failure") and failure is None:
                failure = (part.hyp_part, fres["failure"])
            per_part[part.name] = {"evaluations": pstats.evaluations, "distinct_nontrivial": len(pstats.nontrivial),
                                   "engine": "atheris %s -> hypothesis.fuzz_one_input" % fres.get("note", ""),
                                   "counters": dict(sorted(pstats.counters.items()))}
            total.merge(pstats)
            if failure:
                break
            continue
        with ctx.Pool(min(NWORKERS, len(jobs)) or 1) as pool:
            for out in pool.imap_unordered(_worker, jobs):
                if out["error"]:
                    print("HARNESS-ERROR property=%s part=%s\n%s" % (prop, part.name, out["error"]))
                    return 2
                pstats.merge(out["stats"])
                if out["failure"] and failure is None:
                    failure = (part.name, out["failure"])
                    pool.terminate()
                    break
        per_part[part.name] = {"evaluations": pstats.evaluations, "distinct_nontrivial": len(pstats.nontrivial) + pstats.extra_nontrivial,
                               "counters": dict(sorted(pstats.counters.items()))}
        total.merge(pstats)
        if failure:
            break

    wall = time.time() - t0
    budget_hit = total.budget_skipped > 0
    if failure:
        path = write_replay(prop, failure[0], failure[1])
        # minimal confirmation that the replay file reproduces outside Hypothesis
        v = replay_file(prop, path)
        print("VIOLATION property=%s replay=%s" % (prop, path))
        print("  part=%s kind=%s" % (failure[0], failure[1]["violation"]["kind"]))
        print("  detail=%s" % failure[1]["violation"]["detail"][:1500])
        print("  replay-reproduces=%s" % (v is not None))
        _write_evidence(mod, prop, tier, seed, total, per_part, exhaustive_flags, wall, 1, nreg, budget_hit)
        return 1
    for e in known_entries:
        print("KNOWN-FINDING: property=%s %s [%s] (cases hitting it in this run: %d)" %
              (prop, e["what"], e["id"], total.known.get(e["id"], 0)))
    _write_evidence(mod, prop, tier, seed, total, per_part, exhaustive_flags, wall, 0, nreg, budget_hit)
    print("OK property=%s tier=%s seed=%d evaluations=%d distinct_nontrivial=%d regressions=%d wall=%.1fs%s" %
          (prop, tier, seed, total.evaluations, len(total.nontrivial) + total.extra_nontrivial, nreg, wall,
           " BUDGET-HIT (inconclusive beyond the counts reached)" if budget_hit else ""))
    return 0


def _write_evidence(mod, prop, tier, seed, total, per_part, exhaustive_flags, wall, violations, nreg, budget_hit):
    # evidence/ describes runs against /repo itself; a sensitivity run against another tree (VERIF_REPO) writes elsewhere
    evdir = os.path.join(HERE, "evidence") if not os.environ.get("VERIF_REPO") else os.path.join(HERE, ".work", "evidence-other-tree")
    os.makedirs(evdir, exist_ok=True)
    cov = {
        "evaluations": total.evaluations,
        "distinct_nontrivial": len(total.nontrivial) + total.extra_nontrivial,
        "rule": mod.RULE,
        "samples": jsonable(total.samples[:5]),
        "parts": per_part,
        "classes": dict(sorted(total.counters.items())),
        "known_finding_hits": total.known,
        "regressions_replayed": nreg,
        "budget_hit": budget_hit,
        "workers": NWORKERS,
    }
    if exhaustive_flags:
        cov["exhaustive_parts"] = exhaustive_flags
        cov["exhaustive"] = all(exhaustive_flags.values()) and all(p.kind == "enum" for p in mod.PARTS)
    ev = {
        "property_id": prop, "tier": tier, "seed": seed, "level": "exploration", "coverage": cov,
        "assumptions": getattr(mod, "ASSUMPTIONS", []), "wall_s": round(wall, 2), "violations": violations,
    }
    with open(os.path.join(evdir, "%s.json" % prop), "w") as f:
        json.dump(ev, f, indent=1)
