"""Hypothesis strategies for typed structures with terms, tables, coefficient text and extra columns (DESIGN 3.4)."""
import numpy as np
from hypothesis import strategies as st

from mv import hperm

from mv import model_atoms as M

ELEMENTS = ["C", "H", "O", "N", "Zr", "Cu", "F", "S"]
TOKENS = ["harmonic", "fourier", "cosine/periodic", "cvff", "lj/cut", "1", "-1", "2", "3", "0.5", "12.500000", "-0.75",
          "1e-3", "100.25", "0.000000", "aa", "x_1"]
COMMENTS = ["C_R O_1", "Zr1 O", "note", "C_3 H_ M=2", "a b c d"]
XLABELS = {"atom": ["_atom_site_description", "_atom_site_calc_flag", "_atom_site_refinement_flags"],
           "bond": ["_geom_bond_distance", "_ccdc_geom_bond_type"],
           "angle": ["_geom_angle", "_geom_angle_publ_flag"],
           "dihedral": ["_geom_torsion", "_geom_torsion_publ_flag"],
           "improper": ["_improper_note"]}
XVALUES = ["1.0", "S", "A", "0.5000", "yes", "?", "1.5400", "x", "bridging-site", "0.7500000001", "d"]


@st.composite
def coeff_text(draw, tagged=None):
    toks = draw(st.lists(st.sampled_from(TOKENS), min_size=1, max_size=5))
    if tagged is not None:
        toks = toks + [tagged]
    s = draw(st.sampled_from([" ", "  "])).join(toks)
    if draw(st.booleans()):
        s += "   # " + draw(st.sampled_from(COMMENTS))
    return s


@st.composite
def cell_any(draw, oriented="lammps"):
    k = draw(st.sampled_from(["ortho", "tilt", "tilt", "none"] if oriented == "any-or-none" else ["ortho", "tilt", "tilt"]))
    if k == "none":
        return None
    a, b, c = [draw(st.floats(4.0, 15.0)) for _ in range(3)]
    whole = draw(hperm.integers(0, 7)) == 0
    if whole:
        # a cell written in whole Angstroms (typed_structure then sometimes hands it over as ints)
        a, b, c = float(round(a)), float(round(b)), float(round(c))
    if k == "ortho":
        return [[a, 0, 0], [0, b, 0], [0, 0, c]]
    # tilt factors mostly within half a box length (what LAMMPS itself prefers), now and then a strongly sheared cell
    lim = 0.5 if draw(hperm.integers(0, 4)) else 0.95
    xy, xz, yz = draw(st.floats(-lim, lim)) * a, draw(st.floats(-lim, lim)) * a, draw(st.floats(-lim, lim)) * b
    if whole:
        xy, xz, yz = float(round(xy)), float(round(xz)), float(round(yz))
    return [[a, 0, 0], [xy, b, 0], [xz, yz, c]]


@st.composite
def typed_structure(draw, min_atoms=1, max_atoms=8, tag_base=0, cell="lammps", term_modes=None, max_terms=4,
                    extras=True, pair=None, label_prefix="", coords="in-cell", dups=False):
    """a spec (see model_atoms).  Charges are unique identity tags: tag_base + 0.001*(i+1) with alternating sign."""
    n = draw(hperm.integers(min_atoms, max_atoms))
    spec = M.empty_spec()
    c = draw(cell_any(oriented="any-or-none" if cell == "any-or-none" else "lammps")) if cell != "none" else None
    spec["cell"] = c
    if draw(hperm.integers(0, 7)) == 0:
        spec["term_arrays"] = "fortran"
    if c is not None and all(float(x).is_integer() for r in c for x in r):
        spec["cell_form"] = draw(st.sampled_from(["float", "int-list", "int-array"]))
    ntypes = draw(hperm.integers(1, 4))
    from mofun.atomic_masses import ATOMIC_MASSES
    for t in range(ntypes):
        e = draw(st.sampled_from(ELEMENTS))
        spec["type_elements"].append(e)
        spec["type_labels"].append("%s%s_%d" % (label_prefix, e, t))
        spec["type_masses"].append(round(ATOMIC_MASSES[e] + 0.001 * t, 6))
    if ntypes >= 2 and draw(hperm.integers(0, 11)) == 0:
        # one type without a label (an unlabelled fragment was merged in) next to labelled ones
        spec["type_labels"][draw(hperm.integers(0, ntypes - 1))] = ""
    has_pair = draw(st.booleans()) if pair is None else pair
    if has_pair:
        spec["pair_coeffs"] = [draw(coeff_text(tagged="p%s%d" % (label_prefix, t))) for t in range(ntypes)]
    C = np.array(c) if c is not None else np.eye(3) * 10.0
    for i in range(n):
        if coords == "in-cell":
            f = [draw(st.floats(0.0, 0.999)) for _ in range(3)]
        else:
            f = [draw(st.floats(-1.5, 2.5)) for _ in range(3)]
        spec["pos"].append((np.array(f) @ C).tolist())
        spec["atom_types"].append(draw(hperm.integers(0, ntypes - 1)))
        sign = -1 if i % 2 else 1
        spec["charges"].append(round(sign * (tag_base + 0.001 * (i + 1)), 6))
        spec["groups"].append(draw(hperm.integers(0, 3)))
    if extras and draw(st.booleans()):
        k = draw(hperm.integers(1, 2))
        spec["extra_atom_labels"] = XLABELS["atom"][:k]
        spec["extra_atom_fields"] = [[draw(st.sampled_from(XVALUES)) for _ in range(k)] for _ in range(n)]
    for kind in M.KINDS:
        size = M.SIZE[kind]
        mode = draw(st.sampled_from(term_modes or ["none", "untyped", "table", "table", "table-no-terms"]))
        if n < size and mode in ("untyped", "table"):
            mode = "none" if mode == "untyped" else "table-no-terms"
        if mode == "none":
            continue
        ntt = draw(hperm.integers(1, 3))
        if mode in ("table", "table-no-terms"):
            rows = ntt + draw(hperm.integers(0, 1))          # optionally an unused trailing row
            spec[kind + "_coeffs"] = [draw(coeff_text(tagged="%s%s%d" % (kind[0], label_prefix, r))) for r in range(rows)]
        if mode == "table-no-terms":
            continue
        nt = draw(hperm.integers(1, max_terms))
        seen = set()
        for _ in range(nt):
            t = list(draw(hperm.permutations(range(n))))[:size]
            key = min(tuple(t), tuple(t[::-1]))
            if key in seen and not (dups and draw(hperm.integers(0, 2)) == 0):
                continue          # mostly distinct tuples; now and then a second term on the same atoms (multi-term torsion)
            seen.add(key)
            spec[kind + "s"].append(t)
            spec[kind + "_types"].append(draw(hperm.integers(0, ntt - 1)))
        if extras and draw(st.booleans()):
            k = draw(hperm.integers(1, len(XLABELS[kind])))
            spec["extra_%s_labels" % kind] = XLABELS[kind][:k]
            spec["extra_%s_fields" % kind] = [[draw(st.sampled_from(XVALUES)) for _ in range(k)] for _ in spec[kind + "s"]]
    return spec


def spec_stats(spec, stats, prefix=""):
    for kind in M.KINDS:
        mode = "none"
        if spec[kind + "s"]:
            mode = "table" if spec[kind + "_coeffs"] else "untyped"
        elif spec[kind + "_coeffs"]:
            mode = "table-no-terms"
        stats.count("%s%s:%s" % (prefix, kind, mode))
    stats.count("%sterm-arrays:%s" % (prefix, spec.get("term_arrays", "lists")))
    stats.count("%scell-given-as:%s" % (prefix, spec.get("cell_form", "float") if spec.get("cell") is not None else "none"))
    stats.count("%spair-table:%s" % (prefix, bool(spec["pair_coeffs"])))
    stats.count("%sextra-atom-columns:%s" % (prefix, bool(spec["extra_atom_labels"])))


def inflate(spec, m):
    """the same structure repeated m times (atoms shifted, terms copied with index offsets, unique charge tags): gives
    structures with hundreds of atoms - indices beyond 127 / 255 - at the cost of a handful of draws"""
    import copy
    n = len(spec["pos"])
    if n == 0 or m <= 1:
        return spec
    out = copy.deepcopy(spec)
    shift = [0.173, 0.061, 0.097]
    for r in range(1, m):
        for i in range(n):
            out["pos"].append([spec["pos"][i][k] + shift[k] * r for k in range(3)])
            out["atom_types"].append(spec["atom_types"][i])
            out["groups"].append(spec["groups"][i])
            if spec["extra_atom_labels"]:
                out["extra_atom_fields"].append(list(spec["extra_atom_fields"][i]))
        for kind in M.KINDS:
            for q, t in enumerate(spec[kind + "s"]):
                out[kind + "s"].append([x + r * n for x in t])
                out[kind + "_types"].append(spec[kind + "_types"][q])
                if spec["extra_%s_labels" % kind]:
                    out["extra_%s_fields" % kind].append(list(spec["extra_%s_fields" % kind][q]))
    base = abs(spec["charges"][0]) - 0.001 if spec["charges"] else 0.0
    N = n * m
    out["charges"] = [round((base + 0.0001 * (i + 1)) * (-1 if i % 2 else 1), 6) for i in range(N)]
    return out


def pad(spec, before, after):
    """the same structure embedded in a long list of plain atoms (type 0, no terms): `before` atoms in front, `after`
    behind - a large structure with a sparse topology, as a solvated fragment or a framework with a few typed defects"""
    import copy
    n = len(spec["pos"])
    if n == 0 or before + after == 0:
        return spec
    out = copy.deepcopy(spec)
    nx = len(spec["extra_atom_labels"])

    def plain(k, i):
        return [0.011 * (i % 97) + 0.3, 0.007 * (i % 89) + 0.2, 0.013 * (i % 83) + 0.1]
    front = list(range(before))
    out["pos"] = [plain(0, i) for i in front] + out["pos"] + [plain(1, before + n + i) for i in range(after)]
    out["atom_types"] = [0] * before + out["atom_types"] + [0] * after
    out["groups"] = [0] * before + out["groups"] + [0] * after
    if nx:
        out["extra_atom_fields"] = [["."] * nx for _ in front] + out["extra_atom_fields"] + [["."] * nx for _ in range(after)]
    for kind in M.KINDS:
        out[kind + "s"] = [[x + before for x in t] for t in spec[kind + "s"]]
    N = before + n + after
    base = abs(spec["charges"][0]) - 0.001 if spec["charges"] else 0.0
    out["charges"] = [round((base + 0.0001 * (i + 1)) * (-1 if i % 2 else 1), 6) for i in range(N)]
    return out
