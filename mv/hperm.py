"""Fisher-Yates permutation strategy built from bounded integers.

st.permutations is rejected almost always when Hypothesis is driven from raw bytes (fuzz_one_input under atheris), which
would confine the coverage-guided engine to the permutation-free branches of the generators; this one decodes from any
byte string and shrinks towards the identity."""
from hypothesis import strategies as st


def integers(lo, hi):
    """st.integers(lo, hi) decoded as an offset from lo.  Hypothesis 6.168 rejects almost every raw byte string for narrow
    ranges that do not start near zero (e.g. integers(4, 6), integers(2, 3), integers(100, 101)) when driven through
    fuzz_one_input; the offset form decodes from any byte string and generates / shrinks identically otherwise."""
    if lo == 0:
        return st.integers(0, hi)
    return st.integers(0, hi - lo).map(lambda x, lo=lo: x + lo)


@st.composite
def permutations(draw, seq):
    out = list(seq)
    n = len(out)
    for i in range(n - 1):
        j = i + draw(st.integers(0, n - 1 - i))
        out[i], out[j] = out[j], out[i]
    return out
