"""Silence mofun's chatter (it prints a warning per Atoms() and several lines per dihedral)."""
import contextlib
import io
import os
import sys


class _Null(io.TextIOBase):
    def write(self, s):
        return len(s)


@contextlib.contextmanager
def silenced():
    old = sys.stdout, sys.stderr
    sys.stdout = sys.stderr = _Null()
    try:
        yield
    finally:
        sys.stdout, sys.stderr = old


def workdir():
    d = os.path.join(os.path.dirname(os.path.dirname(os.path.abspath(__file__))), ".work", "p%d" % os.getpid())
    os.makedirs(d, exist_ok=True)
    return d
