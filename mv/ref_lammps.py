"""Independent reader of LAMMPS data files, written from the read_data format description (DESIGN A.4).
Shares no code with mofun.  All ids are returned 1-based as in the file; the oracle does the -1 itself."""
import re

SECTIONS = ["Masses", "Pair Coeffs", "Bond Coeffs", "Angle Coeffs", "Dihedral Coeffs", "Improper Coeffs",
            "Atoms", "Bonds", "Angles", "Dihedrals", "Impropers", "Velocities"]
COUNT_RE = re.compile(r"^\s*(\d+)\s+(atoms|bonds|angles|dihedrals|impropers)\s*$")
TYPES_RE = re.compile(r"^\s*(\d+)\s+(atom|bond|angle|dihedral|improper)\s+types\s*$")
BOX_RE = re.compile(r"^\s*(\S+)\s+(\S+)\s+([xyz])lo\s+[xyz]hi\s*$")
TILT_RE = re.compile(r"^\s*(\S+)\s+(\S+)\s+(\S+)\s+xy\s+xz\s+yz\s*$")


class FormatError(Exception):
    pass


def parse(text, atom_style="full"):
    lines = text.split("\n")
    out = {"counts": {}, "types": {}, "box": {}, "tilt": None, "sections": {}, "order": []}
    i = 1  # first line is a title
    n = len(lines)
    cur = None
    while i < n:
        raw = lines[i]
        body, sep, comment = raw.partition("#")
        body_s = body.strip()
        if body_s in SECTIONS or re.sub(r"\s+", " ", body_s) in SECTIONS:
            cur = re.sub(r"\s+", " ", body_s)
            if cur in out["sections"]:
                raise FormatError("section %s appears twice" % cur)
            out["sections"][cur] = []
            out["order"].append(cur)
            i += 1
            if i < n and lines[i].strip() != "":
                raise FormatError("section header %s not followed by a blank line" % cur)
            i += 1
            while i < n and lines[i].partition("#")[0].strip() != "":
                b, s2, c = lines[i].partition("#")
                out["sections"][cur].append((b.split(), c.strip() if s2 else None))
                i += 1
            cur = None
            continue
        if body_s == "":
            i += 1
            continue
        m = COUNT_RE.match(body)
        if m:
            out["counts"][m.group(2)] = int(m.group(1))
            i += 1
            continue
        m = TYPES_RE.match(body)
        if m:
            out["types"][m.group(2)] = int(m.group(1))
            i += 1
            continue
        m = BOX_RE.match(body)
        if m:
            out["box"][m.group(3)] = (float(m.group(1)), float(m.group(2)))
            i += 1
            continue
        m = TILT_RE.match(body)
        if m:
            out["tilt"] = (float(m.group(1)), float(m.group(2)), float(m.group(3)))
            i += 1
            continue
        raise FormatError("unrecognised header line %r" % raw)
    return out


def check_wellformed(p, atom_style="full"):
    """structural rules of the format: counts match sections, ids 1..N in order, type ids within declared counts"""
    errs = []
    sec = p["sections"]
    width = {"Atoms": 7 if atom_style == "full" else 5, "Bonds": 4, "Angles": 5, "Dihedrals": 6, "Impropers": 6}
    natoms = p["counts"].get("atoms")
    for name, cname in (("Atoms", "atoms"), ("Bonds", "bonds"), ("Angles", "angles"), ("Dihedrals", "dihedrals"), ("Impropers", "impropers")):
        rows = sec.get(name, [])
        if p["counts"].get(cname, 0) != len(rows):
            errs.append("header declares %r %s but the %s section has %d rows" % (p["counts"].get(cname), cname, name, len(rows)))
        for k, (toks, _) in enumerate(rows):
            if len(toks) != width[name]:
                errs.append("%s row %d has %d columns, expected %d" % (name, k + 1, len(toks), width[name]))
                break
            if int(toks[0]) != k + 1:
                errs.append("%s row %d has id %s" % (name, k + 1, toks[0]))
                break
    for tname, section, col, coeffs in (("atom", "Atoms", 2 if atom_style == "full" else 1, "Pair Coeffs"),
                                        ("bond", "Bonds", 1, "Bond Coeffs"), ("angle", "Angles", 1, "Angle Coeffs"),
                                        ("dihedral", "Dihedrals", 1, "Dihedral Coeffs"), ("improper", "Impropers", 1, "Improper Coeffs")):
        declared = p["types"].get(tname)
        rows = sec.get(section, [])
        used = [int(t[col]) for t, _ in rows if len(t) > col]
        if used:
            if declared is None:
                errs.append("%s section present but no '%s types' header line" % (section, tname))
            elif max(used) > declared:
                errs.append("header declares %d %s types but the %s section uses type id %d" % (declared, tname, section, max(used)))
            if min(used) < 1:
                errs.append("%s section uses type id %d (< 1)" % (section, min(used)))
        if coeffs in sec:
            crow = sec[coeffs]
            if declared is None:
                errs.append("%s section present but no '%s types' header line" % (coeffs, tname))
            elif len(crow) != declared:
                errs.append("header declares %d %s types but %s has %d rows" % (declared, tname, coeffs, len(crow)))
            for k, (toks, _) in enumerate(crow):
                if not toks or int(toks[0]) != k + 1:
                    errs.append("%s row %d has id %r" % (coeffs, k + 1, toks[:1]))
                    break
    if "Masses" in sec:
        declared = p["types"].get("atom")
        if declared is not None and len(sec["Masses"]) != declared:
            errs.append("header declares %d atom types but Masses has %d rows" % (declared, len(sec["Masses"])))
        for k, (toks, _) in enumerate(sec["Masses"]):
            if len(toks) != 2 or int(toks[0]) != k + 1:
                errs.append("Masses row %d is %r" % (k + 1, toks))
                break
    # atom references in term sections
    if natoms is not None:
        for name in ("Bonds", "Angles", "Dihedrals", "Impropers"):
            for toks, _ in sec.get(name, []):
                ids = [int(x) for x in toks[2:]]
                if ids and (min(ids) < 1 or max(ids) > natoms):
                    errs.append("%s row %s refers to atoms %r but there are %d atoms" % (name, toks[0], ids, natoms))
                    break
    return errs
