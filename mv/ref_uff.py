"""Independent re-implementation of the UFF functional forms (Rappe et al., JACS 1992, 114, 10024) with the special
cases documented in mofun's docstrings and comments.  Reads the same parameter table; shares no code with rough_uff.

table columns: r1, theta0, x1, D1, zeta, Z1, Vi, Uj, Xi, Hard, Radius
"""
import math

R1, THETA0, X1, D1, ZETA, Z1, VI, UJ, XI = range(9)

SINGLE_BOND_TYPES = ('H_', 'F_', 'Cl', 'Br', 'I_', 'C_3', 'N_3', 'O_3')
GROUP6 = ('O', 'S', 'Se', 'Te', 'Po')


def bond_order(a, b, rules=None):
    """documented bond-order guesses; user rules (set of types -> order) take precedence"""
    pair = frozenset((a, b))
    if rules:
        for types, bo in rules:
            if frozenset(types) == pair:
                return bo
    if a in SINGLE_BOND_TYPES or b in SINGLE_BOND_TYPES:
        return 1
    if a == b and a in ('C_2', 'N_2', 'O_2'):
        return 2
    if a == b and a in ('C_R', 'N_R', 'O_R'):
        return 1.5
    return 1


def bond_length(T, a, b, n):
    ri, rj = T[a][R1], T[b][R1]
    xi, xj = T[a][XI], T[b][XI]
    r_bo = -0.1332 * (ri + rj) * math.log(n)
    r_en = ri * rj * (math.sqrt(xi) - math.sqrt(xj)) ** 2 / (xi * ri + xj * rj)
    return ri + rj + r_bo - r_en


def bond(T, a, b, n=None, rules=None):
    """(K for LAMMPS harmonic = k_ij/2, r_ij)"""
    if n is None:
        n = bond_order(a, b, rules)
    r = bond_length(T, a, b, n)
    k = 664.12 * T[a][Z1] * T[b][Z1] / r ** 3
    return (k / 2.0, r)


def angle(T, a, b, c, orders=(None, None), rules=None):
    th_deg = T[b][THETA0]
    th = math.radians(th_deg)
    n1 = orders[0] if orders[0] is not None else bond_order(a, b, rules)
    n2 = orders[1] if orders[1] is not None else bond_order(b, c, rules)
    rij = bond_length(T, a, b, n1)
    rjk = bond_length(T, b, c, n2)
    cos_t = math.cos(th)
    rik2 = rij * rij + rjk * rjk - 2.0 * rij * rjk * cos_t
    rik = math.sqrt(rik2)
    beta = 664.12 / (rij * rjk)
    # Rappe eq. 13:  K = beta Zi Zk rij rjk / rik^5 [3 rij rjk (1 - cos^2) - rik^2 cos]
    K = beta * T[a][Z1] * T[c][Z1] * rij * rjk / rik ** 5 * (3.0 * rij * rjk * (1.0 - cos_t * cos_t) - rik2 * cos_t)
    if th_deg == 180.0:
        return ('cosine/periodic', K, 1, 1)
    if th_deg == 120.0:
        return ('cosine/periodic', K, -1, 3)
    if th_deg == 90.0:
        four_coordinate = len(b) > 2 and b[2] == '3'
        return ('cosine/periodic', K, -1, 2) if four_coordinate else ('cosine/periodic', K, 1, 4)
    s2 = math.sin(th) ** 2
    c2 = 1.0 / (4.0 * s2)
    c1 = -4.0 * c2 * cos_t
    c0 = c2 * (2.0 * cos_t * cos_t + 1.0)
    return ('fourier', K, c0, c1, c2)


class Unsupported(Exception):
    pass


def _el(t):
    return t[0:2].strip('_')


def _hyb(t):
    return t[2] if len(t) > 2 else 0


def torsion(T, a, b, c, d, M=1, n=None, rules=None, main_group=()):
    """returns ('harmonic', K, d, n) | None (undefined) | raises Unsupported"""
    if n is None:
        n = bond_order(b, c, rules)
    hb, hc = _hyb(b), _hyb(c)
    eb, ec = _el(b), _el(c)
    ha, hd = _hyb(a), _hyb(d)
    if hb == '3' and hc == '3':
        if eb in GROUP6 and ec in GROUP6:
            vb = 2.0 if eb == 'O' else 6.8
            vc = 2.0 if ec == 'O' else 6.8
            return ('harmonic', math.sqrt(vb * vc) / M / 2.0, 1, 2)
        return ('harmonic', math.sqrt(T[b][VI] * T[c][VI]) / M / 2.0, 1, 3)
    if hb in ('2', 'R') and hc in ('2', 'R'):
        v = 5.0 * math.sqrt(T[b][UJ] * T[c][UJ]) * (1.0 + 4.18 * math.log(n)) / M
        return ('harmonic', v / 2.0, -1, 2)
    if hb in ('2', 'R', '3') and hc in ('2', 'R', '3'):
        # one sp3, one sp2/resonant
        if (ha == '2' and hb == '2') or (hc == '2' and hd == '2'):
            return ('harmonic', 2.0 / M / 2.0, 1, 3)
        if (hb == '3' and eb in GROUP6 and ec not in GROUP6) or (hc == '3' and ec in GROUP6 and eb not in GROUP6):
            v = 5.0 * math.sqrt(T[b][UJ] * T[c][UJ]) * (1.0 + 4.18 * math.log(n)) / M
            return ('harmonic', v / 2.0, 1, 2)
        return ('harmonic', 1.0 / M / 2.0, -1, 6)
    if hb == '1' or hc == '1':
        return None
    if not (eb in main_group and ec in main_group):
        return None
    raise Unsupported()


def pair(T, a):
    return [T[a][D1], T[a][X1] * 2.0 ** (-1.0 / 6.0)]
