"""Shared generator and model pieces for the replacement properties (C04, C05, C07, C08, parts of C06/C20).

A replacement case = planted structure (gen_geom.planted) + per-atom payload (unique charge tags, groups, explicit atom
types with labels and masses) + a replacement pattern derived from the search pattern (DESIGN A.1).
"""
import itertools

import numpy as np
from hypothesis import strategies as st

from mv import hperm

from mv import gen_geom, geom, mf, ref_match
from mv.quiet import silenced

R_TAG0 = 5.0     # inserted atoms carry charge tags 5.00, 5.01, ... (one per replacement-pattern atom)


@st.composite
def derived_replacement(draw, pat, kinds=None):
    """replacement pattern derived from the search pattern.  returns dict(pos, els, shared={r_idx: s_idx}, kind)"""
    spos = np.asarray(pat["pos"], float)
    sels = list(pat["els"])
    n = len(spos)
    kind = draw(st.sampled_from(kinds or ["empty", "smaller", "equal", "larger", "larger", "disjoint", "identical"]))
    if kind == "empty":
        return {"pos": [], "els": [], "shared": {}, "kind": kind}
    if kind == "identical":
        keep = list(range(n))
    elif kind == "disjoint":
        keep = []
    else:
        keep = sorted(draw(st.sets(hperm.integers(0, n - 1), min_size=0 if n == 1 else 1, max_size=n)))
    rpos = [spos[i].copy() for i in keep]
    rels = [sels[i] for i in keep]
    src = list(keep)                     # which search atom each replacement atom is identical to (or None)
    dropped = [i for i in range(n) if i not in keep]
    if kind != "identical":
        # element change at the same coordinates (H -> F style): not shared
        for i in dropped:
            if draw(hperm.integers(0, 3)) == 0:
                rpos.append(spos[i].copy())
                # often the one-/two-letter partner with the same first letter (Cl -> C, Na -> N, C -> Co ...)
                partners = [e for e in ["C", "Cl", "Co", "N", "Na", "S", "Si"] if e != sels[i] and e[0] == sels[i][0]]
                rels.append(draw(st.sampled_from(partners * 3 + [e for e in gen_geom.ALPHABET + ["F"] if e != sels[i]])))
                src.append(None)
            elif draw(hperm.integers(0, 5)) == 0:
                # almost-shared: same element, moved by >= 1e-3 -> must be treated as a different atom
                d = draw(gen_geom.unit_vector()) * draw(st.sampled_from([1e-3, 1e-2, 0.2]))
                rpos.append(spos[i] + d)
                rels.append(sels[i])
                src.append(None)
        nnew = {"smaller": 0, "equal": len(dropped) and 1, "larger": draw(hperm.integers(1, 3)),
                "disjoint": draw(hperm.integers(1, 3))}[kind]
        for _ in range(nnew):
            base = spos[draw(hperm.integers(0, n - 1))]
            r = draw(st.sampled_from([0.9, 1.5, 2.5, 4.0]))
            p = base + draw(gen_geom.unit_vector()) * r
            for _ in range(50):
                if all(np.linalg.norm(p - q) >= 0.5 for q in list(spos) + rpos):
                    break
                p = p + np.array([0.37, 0.11, 0.23])
            rpos.append(p)
            rels.append(draw(st.sampled_from(gen_geom.ALPHABET + ["F"])))
            src.append(None)
    if not rpos:
        return {"pos": [], "els": [], "shared": {}, "kind": "empty"}
    order = list(draw(hperm.permutations(range(len(rpos)))))
    rpos = [rpos[i] for i in order]
    rels = [rels[i] for i in order]
    src = [src[i] for i in order]
    shared = {str(r): s for r, s in enumerate(src) if s is not None}
    return {"pos": [list(map(float, p)) for p in rpos], "els": rels, "shared": shared, "kind": kind}


@st.composite
def payload(draw, sels):
    """explicit atom types (1-2 labels per element), masses, unique charge tags, groups"""
    from mofun.atomic_masses import ATOMIC_MASSES
    els = sorted(set(sels))
    type_elements, type_labels, type_masses = [], [], []
    for e in els:
        k = draw(hperm.integers(1, 2))
        for j in range(k):
            type_elements.append(e)
            type_labels.append("%s_%s" % (e, "ab"[j]))
            type_masses.append(ATOMIC_MASSES[e] + 0.001 * j)
    atom_types = []
    for e in sels:
        cands = [t for t, te in enumerate(type_elements) if te == e]
        atom_types.append(draw(st.sampled_from(cands)))
    N = len(sels)
    charges = [round(0.001 * (i + 1), 6) * (-1 if i % 2 else 1) for i in range(N)]
    groups = [draw(hperm.integers(0, 3)) for _ in range(N)]
    return {"atom_types": atom_types, "type_elements": type_elements, "type_labels": type_labels,
            "type_masses": type_masses, "charges": charges, "groups": groups}


@st.composite
def replace_case(draw, repl_kinds=None, fractions=True, with_hints=True, max_copies=3, pattern_classes=None,
                 cell_classes=None, tightness=(1.02, 1.5, 3.0), decoys=True, noise_levels=(0.0, 1 / 64.0, 1 / 32.0),
                 atols=None, max_atoms=5, with_payload=True, dressed=False):
    pat = draw(gen_geom.pattern(classes=pattern_classes, max_atoms=max_atoms, alphabet=draw(st.sampled_from(gen_geom.ALPHABETS))))
    rp = draw(derived_replacement(pat, kinds=repl_kinds))
    both = list(pat["pos"]) + list(rp["pos"])
    d_all = geom.diameter(both)
    case = draw(gen_geom.planted(pat=pat, extra_diam=d_all, width_factor=2.0, min_width_extra=0.0,
                                 max_copies=max_copies, cell_classes=cell_classes, tightness=list(tightness),
                                 with_decoys=decoys, with_hints=with_hints, noise_levels=noise_levels, atols=atols,
                                 decoy_kinds=["element", "loose", "mirror", "near-miss", "loose", "element"], bystanders=3))
    # planted() sized the cell for 2*(d_all + 2 atol): every perpendicular width > 2 diam(S u R) + 4 atol
    case["rpos"], case["rels"], case["shared"] = rp["pos"], rp["els"], rp["shared"]
    case["meta"]["repl_kind"] = rp["kind"]
    if fractions:
        fk = draw(st.sampled_from(["one", "one", "zero", "tie", "uniform", "uniform"]))
    else:
        fk = "one"
    case["meta"]["f_kind"] = fk
    if fk == "one":
        f = 1.0
    elif fk == "zero":
        f = 0.0
    elif fk == "tie":
        f = draw(st.sampled_from([0.5, 0.25, 0.75, 1 / 6.0, 0.125, 0.375]))
    else:
        f = draw(st.floats(0.0, 1.0))
    case["f"] = f
    case["replace_all"] = draw(st.booleans())
    if with_payload:
        case["payload"] = draw(payload(case["sels"]))
    if dressed and draw(hperm.integers(0, 2)) == 0:
        # patterns that carry their own type labels (different in the two patterns) and / or extra per-atom columns
        case["pdress"] = {"slab": draw(st.sampled_from([None, "_s", "_R", "1"])),
                          "rlab": draw(st.sampled_from([None, "_r", "_3", "1"])),
                          "sextra": draw(hperm.integers(0, 3)) == 0, "rextra": draw(st.booleans())}
    if draw(hperm.integers(0, 3)) == 0:
        case["pcells"] = [draw(st.sampled_from([None, "small", "big", "tilted"])), draw(st.sampled_from([None, "small", "big", "tilted"]))]
    case["rcharges"] = [round(R_TAG0 + 0.01 * j, 6) for j in range(len(rp["pos"]))]
    case["rgroups"] = [draw(hperm.integers(4, 6)) for _ in range(len(rp["pos"]))]
    return case


def build_structure(case):
    from mofun import Atoms
    pl = case.get("payload")
    with silenced():
        if pl is None:
            return Atoms(elements=case["sels"], positions=np.array(case["spos"], float), cell=np.array(case["cell"], float))
        return Atoms(atom_types=list(pl["atom_types"]), positions=np.array(case["spos"], float),
                     atom_type_elements=list(pl["type_elements"]), atom_type_labels=list(pl["type_labels"]),
                     atom_type_masses=list(pl["type_masses"]), charges=list(pl["charges"]), groups=list(pl["groups"]),
                     cell=np.array(case["cell"], float))


PATTERN_CELLS = {"small": [[3.1, 0, 0], [0, 4.2, 0], [0, 0, 2.7]], "big": [[25.0, 0, 0], [0, 30.0, 0], [0, 0, 27.0]],
                 "tilted": [[9.0, 0, 0], [2.5, 8.0, 0], [-1.5, 2.0, 7.0]]}


def pattern_cell(case, which):
    """a pattern may carry a cell of its own (loaded from a LAMMPS or CIF file, cut out of another structure): it has no
    bearing on where things go in the structure that is searched"""
    k = (case.get("pcells") or [None, None])[which]
    return None if k is None else np.array(PATTERN_CELLS[k], float)


def _dressed(els, pos, suffix, extra, **kw):
    """pattern with explicit types: one type per element, label = element + suffix (as a pattern cut out of a typed
    LAMMPS file or a CIF with site labels), optionally with extra per-atom columns (as read from a CIF)"""
    from mofun import Atoms
    ue = list(dict.fromkeys(els))
    if extra:
        kw["extra_atom_labels"] = ["_atom_site_occupancy", "_atom_site_note"]
        kw["extra_atom_fields"] = [["0.5", "p%d" % i] for i in range(len(els))]
    with silenced():
        return Atoms(atom_types=[ue.index(e) for e in els], atom_type_elements=ue,
                     atom_type_labels=[e + suffix for e in ue], positions=pos, **kw)


def build_search(case, motion=None):
    pos = np.array(case["ppos"], float)
    if motion is not None:
        pos = pos @ np.array(motion["R"]).T + np.array(motion["t"])
    d = case.get("pdress")
    if d and (d["slab"] is not None or d["sextra"]):
        return _dressed(list(case["pels"]), pos, d["slab"] or "", d["sextra"], cell=pattern_cell(case, 0))
    return mf.atoms_from(pos, case["pels"], pattern_cell(case, 0))


def build_replace(case, motion=None):
    from mofun import Atoms
    if len(case["rpos"]) == 0:
        with silenced():
            return Atoms()
    pos = np.array(case["rpos"], float)
    if motion is not None:
        pos = pos @ np.array(motion["R"]).T + np.array(motion["t"])
    d = case.get("pdress")
    if d and (d["rlab"] is not None or d["rextra"]):
        return _dressed(list(case["rels"]), pos, d["rlab"] or "", d["rextra"], charges=list(case["rcharges"]),
                        groups=list(case["rgroups"]), cell=pattern_cell(case, 1))
    with silenced():
        return Atoms(elements=list(case["rels"]), positions=pos, charges=list(case["rcharges"]), groups=list(case["rgroups"]),
                     cell=pattern_cell(case, 1))


def analyse(case):
    """reference groups and domain check.  returns (groups, reason) ; reason None when the case is in the domain of the
    replacement properties (no grey group, no two found groups sharing an atom)"""
    in_thr = ref_match.in_threshold(case["ppos"], case["hints"], case["atol"])
    try:
        groups = ref_match.find_all(case["cell"], case["spos"], case["sels"], case["ppos"], case["pels"], case["atol"],
                                    in_thr=in_thr)
    except ref_match.TooAmbiguous:
        return None, "reference-budget"
    if any(g["cls"] == "grey" for g in groups.values()):
        return groups, "grey-group"
    seen = set()
    for k in groups:
        if seen & set(k):
            return groups, "overlapping-groups"
        seen |= set(k)
    return groups, None


def resolved_atoms(a):
    """per-atom resolved records of an Atoms object"""
    out = []
    labels = list(a.atom_type_labels)
    els = list(a.atom_type_elements)
    masses = list(a.atom_type_masses)
    for i in range(len(a.positions)):
        t = int(a.atom_types[i])
        out.append({"pos": np.array(a.positions[i], float), "el": str(els[t]), "label": str(labels[t]),
                    "mass": float(masses[t]), "charge": float(a.charges[i]), "group": int(a.groups[i])})
    return out


def shared_maps(case):
    """r_idx -> s_idx for shared atoms, and the index sets S_only / R_only"""
    sh = {int(r): int(s) for r, s in case["shared"].items()}
    s_only = [i for i in range(len(case["ppos"])) if i not in sh.values()]
    r_only = [j for j in range(len(case["rpos"])) if j not in sh]
    return sh, s_only, r_only
