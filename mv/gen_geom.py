"""Hypothesis strategies for cells, patterns, poses and planted periodic structures (DESIGN 3.1).

Every random choice is a Hypothesis draw.  All results are plain lists/floats so a case is JSON-able.
"""
import math

import numpy as np
from hypothesis import strategies as st

from mv import hperm

from mv import geom

ALPHABET = ["C", "N", "O", "H"]
# alternative alphabets with one-letter / two-letter symbols sharing the first letter (C/Cl, N/Na, S/Si, C/Co)
ALPHABETS = [["C", "N", "O", "H"], ["C", "N", "O", "H"], ["C", "N", "O", "H"], ["C", "Cl", "N", "Na"], ["S", "Si", "C", "Co"]]
ATOLS = [0.002, 0.01, 0.05, 0.1, 0.3]
GRID = 64.0


def grid_float(lo, hi):
    return hperm.integers(int(math.ceil(lo * GRID)), int(math.floor(hi * GRID))).map(lambda k: k / GRID)


@st.composite
def unit_vector(draw):
    v = np.array([draw(st.floats(-1, 1)), draw(st.floats(-1, 1)), draw(st.floats(-1, 1))])
    n = np.linalg.norm(v)
    if n < 1e-3:
        return np.array([1.0, 0.0, 0.0])
    return v / n


@st.composite
def random_rotation(draw):
    q = [draw(st.floats(-1, 1)) for _ in range(4)]
    if sum(x * x for x in q) < 1e-4:
        q = [0, 0, 0, 1]
    return geom.quat_to_matrix(q)


def _separate(points, minsep=0.6):
    """push points apart along +x until every pair is at least minsep apart (construction instead of rejection)"""
    out = []
    for p in points:
        p = np.array(p, float)
        for _ in range(100):
            if all(np.linalg.norm(p - q) >= minsep for q in out):
                break
            p = p + np.array([1.0, 0.015625, 0.0])
        out.append(p)
    return np.array(out)


PATTERN_CLASSES = ["generic", "generic", "symmetric", "planar", "collinear", "near-collinear", "chiral", "single", "rod", "mirror-pair"]


@st.composite
def pattern(draw, classes=None, max_atoms=6, alphabet=None, min_atoms=1):
    """returns dict(pos=[[x,y,z]..], els=[..], cls=str)"""
    alphabet = alphabet or ALPHABET
    cls = draw(st.sampled_from(classes or PATTERN_CLASSES))
    el = st.sampled_from(alphabet)
    ext = 2.5
    if cls == "single" and min_atoms <= 1:
        pos = np.array([[draw(grid_float(-ext, ext)) for _ in range(3)]])
        els = [draw(el)]
    elif cls == "collinear":
        n = draw(hperm.integers(max(2, min_atoms), min(4, max_atoms)))
        d = np.array([draw(hperm.integers(-3, 3)), draw(hperm.integers(-3, 3)), draw(hperm.integers(-3, 3))], float)
        if not d.any():
            d = np.array([1.0, 0, 0])
        d = d / GRID * draw(hperm.integers(8, 24))
        ks = sorted(draw(st.sets(hperm.integers(-6, 6), min_size=n, max_size=n)))
        step = max(1.0, 0.6 / np.linalg.norm(d))
        pos = np.array([k * step * d for k in ks])
        order = draw(hperm.permutations(range(n)))
        pos = pos[list(order)]
        els = [draw(el) for _ in range(n)]
    elif cls == "rod":
        # linker-like: the two end atoms lie exactly on a signed coordinate axis (as in hand-drawn CML files), inner
        # atoms have transverse offsets; the atom order decides the sign of the automatically chosen axis
        n = draw(hperm.integers(max(3, min_atoms), min(5, max(3, max_atoms))))
        axis = draw(hperm.integers(0, 2))
        L = draw(grid_float(1.5, 4.0))
        pos = np.zeros((n, 3))
        pos[1, axis] = L
        for k in range(2, n):
            pos[k, axis] = draw(grid_float(0.3, L - 0.3))
            pos[k, (axis + 1) % 3] = draw(grid_float(-0.8, 0.8))
            pos[k, (axis + 2) % 3] = draw(grid_float(-0.8, 0.8))
        pos = pos + np.array([draw(grid_float(-2, 2)) for _ in range(3)])
        pos = _separate(pos)
        order = list(draw(hperm.permutations(range(n))))
        pos = pos[order]
        els = [draw(el) for _ in range(n)]
    elif cls == "mirror-pair":
        # CH2-like: two atoms of one element related by a mirror plane, the rest asymmetric.  Swapping the pair is an
        # improper symmetry: there are two candidate numberings of every occurrence and only one can be rotated into place
        a_, b_ = draw(grid_float(0.5, 1.2)), draw(grid_float(0.5, 1.5))
        pos = [[0, 0, 0], [a_, b_, 0], [a_, -b_, 0], [draw(grid_float(-1.5, -0.6)), 0, draw(grid_float(0.6, 1.5))],
               [draw(grid_float(0.5, 1.5)), 0, draw(grid_float(-1.8, -0.8))]]
        others = draw(hperm.permutations(["C", "N", "O"]))
        els = [others[0], "H", "H", others[1], others[2]]
        n = draw(hperm.integers(4, 5)) if max_atoms >= 5 else 4
        pos, els = pos[:n], els[:n]
        order = list(draw(hperm.permutations(range(n))))
        pos = np.array(pos, float)[order]
        els = [els[i] for i in order]
    elif cls == "near-collinear":
        n = draw(hperm.integers(max(3, min_atoms), min(4, max(3, max_atoms))))
        ks = sorted(draw(st.sets(hperm.integers(-4, 4), min_size=n, max_size=n)))
        pos = np.array([[k * 0.75, 0.0, 0.0] for k in ks])
        j = draw(hperm.integers(0, n - 1))
        pos[j, 1] += draw(hperm.integers(1, 6)) / GRID
        R = draw(random_rotation())
        pos = np.round(pos @ R.T * GRID) / GRID
        els = [draw(el) for _ in range(n)]
        pos = _separate(pos)
    elif cls == "symmetric":
        kind = draw(st.sampled_from(["ABA", "C2star", "C3star", "AA", "square"]))
        a, b = draw(el), draw(el)
        if kind == "AA":
            L = draw(grid_float(0.7, 3.0))
            pos = np.array([[0, 0, 0], [L, 0, 0]], float)
            els = [a, a]
        elif kind == "ABA":
            L = draw(grid_float(0.7, 2.0))
            ang = math.radians(draw(st.sampled_from([180, 120, 109.5, 90])))
            pos = np.array([[L, 0, 0], [0, 0, 0], [L * math.cos(ang), L * math.sin(ang), 0]])
            els = [a, b, a]
        elif kind == "C2star":
            L = draw(grid_float(0.7, 2.0))
            h = draw(grid_float(0.0, 1.5))
            pos = np.array([[0, 0, 0], [L, 0, h], [-L, 0, h], [0, 0, -1.0]])
            els = [b, a, a, draw(el)]
        elif kind == "C3star":
            L = draw(grid_float(0.7, 2.0))
            h = draw(grid_float(0.0, 1.0))
            pos = np.array([[0, 0, 0]] + [[L * math.cos(t), L * math.sin(t), h] for t in (0, 2 * math.pi / 3, 4 * math.pi / 3)])
            els = [b, a, a, a]
        else:
            L = draw(grid_float(0.7, 2.0))
            pos = np.array([[L, 0, 0], [0, L, 0], [-L, 0, 0], [0, -L, 0]])
            els = [a, a, a, a]
        if len(pos) > max_atoms:
            pos, els = pos[:max_atoms], els[:max_atoms]
        order = list(draw(hperm.permutations(range(len(pos)))))
        pos = pos[order]
        els = [els[i] for i in order]
    elif cls == "chiral":
        n = draw(hperm.integers(4, max(4, max_atoms)))
        a_, b_, c_ = draw(grid_float(0.8, 2.5)), draw(grid_float(0.8, 2.5)), draw(grid_float(0.8, 2.5))
        pos = [[0, 0, 0], [a_, 0, 0], [0, b_, 0], [0, 0, c_]]
        for _ in range(n - 4):
            pos.append([draw(grid_float(-ext, ext)) for _ in range(3)])
        pos = _separate(pos)
        # distinct elements on the three arms make the mirror image a genuinely different arrangement
        els = ["C", "N", "O", "H"] + [draw(el) for _ in range(n - 4)]
        if draw(st.booleans()):
            els[1] = els[2]      # same elements but different arm lengths: chirality by geometry only
            if abs(a_ - b_) < 0.25:
                pos[1][0] += 0.5
    else:  # generic / planar
        n = draw(hperm.integers(max(2, min_atoms), max_atoms))
        if n > 8:
            ext = 3.5
        pos = [[draw(grid_float(-ext, ext)), draw(grid_float(-ext, ext)),
                0.0 if cls == "planar" else draw(grid_float(-ext, ext))] for _ in range(n)]
        pos = _separate(pos)
        els = [draw(el) for _ in range(n)]
    pos = np.asarray(pos, float)
    return {"pos": pos.tolist(), "els": list(els), "cls": cls}


CELL_CLASSES = ["ortho", "ortho", "tilt", "tilt", "tilt-neg", "tilt-small", "left-handed", "ortho-permuted"]
TIGHTNESS = [1.02, 1.1, 1.5, 3.0]


@st.composite
def cell_for(draw, min_width, classes=None, tightness=None):
    """lower-triangular cell with positive diagonal whose every perpendicular width exceeds min_width by a drawn factor.
    returns (cell 3x3 list, meta dict)"""
    cls = draw(st.sampled_from(classes or CELL_CLASSES))
    f = draw(st.sampled_from(tightness or TIGHTNESS))
    min_width = max(min_width, 1.0)
    if cls in ("ortho", "ortho-permuted"):
        fs = [f, draw(st.sampled_from(tightness or TIGHTNESS)), draw(st.sampled_from(tightness or TIGHTNESS))]
        order = draw(hperm.permutations(range(3)))
        diag = [min_width * fs[order[i]] * (1 + 1e-3) for i in range(3)]
        cell = np.diag(diag)
        signs = "000"
        if cls == "ortho-permuted":
            # an orthorhombic box whose vectors are not listed in x, y, z order (right- or left-handed): all angles are 90
            # degrees but the matrix is not diagonal
            perm = draw(st.sampled_from([[1, 2, 0], [2, 0, 1], [1, 0, 2], [0, 2, 1]]))
            cell = cell[perm]
            signs = "perm"
    else:
        a = 1.0
        b = draw(st.floats(0.7, 1.6))
        c = draw(st.floats(0.7, 1.6))
        lim = 0.1 if cls == "tilt-small" else 0.6
        lefthanded = cls == "left-handed"
        if cls == "tilt-yz":
            # monoclinic with alpha != 90 only: xy = xz = 0, yz != 0
            t = [0.0, 0.0, draw(st.floats(0.05, lim)) * draw(st.sampled_from([-1.0, 1.0]))]
        elif cls == "tilt-neg":
            t = [-draw(st.floats(0.05, lim)), draw(st.floats(-lim, lim)), -draw(st.floats(0.05, lim))]
        else:
            t = [draw(st.floats(-lim, lim)) for _ in range(3)]
            if all(abs(x) < 1e-3 for x in t):
                t[0] = 0.3
        xy, xz, yz = t[0] * a, t[1] * a, t[2] * b
        cell = np.array([[a, 0, 0], [xy, b, 0], [xz, yz, c]])
        w = geom.perp_widths(cell)
        cell = cell * (min_width * f * (1 + 1e-3) / w.min())
        if lefthanded:
            # a left-handed cell (A . (B x C) < 0): the same lattice described with two vectors swapped, or with one
            # vector reversed - the search documents that it handles the orientation of the face normals
            if draw(st.booleans()):
                cell = cell[[1, 0, 2]]
            else:
                cell = cell * np.array([[1.0], [1.0], [-1.0]])
        signs = "".join("+" if x > 1e-3 else "-" if x < -1e-3 else "0" for x in (xy, xz, yz))
    return cell.tolist(), {"cell_cls": cls, "tight": f, "tilt_signs": signs}


POSE_CLASSES = ["random", "random", "axis", "flip", "near-parallel", "near-antiparallel", "identity"]


@st.composite
def pose(draw, ppos, classes=None):
    """a proper rotation matrix and its class"""
    cls = draw(st.sampled_from(classes or POSE_CLASSES))
    ppos = np.asarray(ppos, float)
    if cls == "random" or len(ppos) < 2:
        return draw(random_rotation()), "random" if cls != "identity" else "identity"
    if cls == "identity":
        return np.eye(3), cls
    if cls == "axis":
        return geom.axis_rotations()[draw(hperm.integers(0, 23))], cls
    # axis of the pattern = farthest pair
    d = ppos[:, None] - ppos[None]
    dd = (d ** 2).sum(-1)
    i, j = np.unravel_index(np.argmax(dd), dd.shape)
    ax = ppos[j] - ppos[i]
    ax = ax / np.linalg.norm(ax)
    o = np.cross(ax, draw(unit_vector()))
    if np.linalg.norm(o) < 1e-3:
        o = np.cross(ax, [0.3, 0.5, 0.8])
    o = o / np.linalg.norm(o)
    if cls == "flip":
        return geom.axis_angle_matrix(o, math.pi), cls
    # from numerically indistinguishable up to a third of a degree: for a pattern a few Angstrom long the tilt then
    # moves the far atoms by more than a small tolerance, so treating the two directions as parallel is a visible error
    eps = 10.0 ** draw(st.floats(-9, -2.2))
    small = geom.axis_angle_matrix(draw(unit_vector()), eps)
    if cls == "near-parallel":
        # also spin about the axis so that the orientation step has work to do
        # any twist, or one within a hair of 0 / 180 degrees (where the sense of the orienting rotation is decided)
        tw = draw(st.one_of(st.floats(0, 2 * math.pi), st.sampled_from([0.0, math.pi, 5e-5, -2e-5, math.pi - 5e-5, math.pi + 3e-5, 1e-7])))
        spin = geom.axis_angle_matrix(ax, tw) if tw != 0.0 else np.eye(3)
        return small @ spin, cls
    return small @ geom.axis_angle_matrix(o, math.pi), cls


@st.composite
def anchor_frac(draw):
    out, kinds = [], []
    for _ in range(3):
        k = draw(st.sampled_from(["lo", "hi", "mid"]))
        kinds.append(k)
        if k == "lo":
            out.append(draw(st.floats(0.0, 0.06)))
        elif k == "hi":
            out.append(draw(st.floats(0.94, 0.999)))
        else:
            out.append(draw(st.floats(0.1, 0.9)))
    return out, kinds


@st.composite
def noise_vectors(draw, n, eps):
    if eps == 0:
        return np.zeros((n, 3))
    out = []
    for _ in range(n):
        out.append(draw(unit_vector()) * eps * draw(st.floats(0.0, 1.0)))
    return np.array(out)


def place(cell, ppos, R, anchor_f, noise):
    """image of the pattern: R (p_i - p_0) + anchor + noise, then wrapped by the harness.
    returns wrapped positions and the number of cell boundaries the copy crosses"""
    ppos = np.asarray(ppos, float)
    cell = np.asarray(cell, float)
    y = (ppos - ppos[0]) @ np.asarray(R).T + geom.cart(cell, anchor_f) + noise
    fl = np.floor(geom.frac(cell, y) + 1e-12)
    crossings = int(sum(len(set(fl[:, k])) > 1 for k in range(3)))
    return geom.wrap(cell, y), crossings, y


def hint_forms(n):
    if n < 2:
        return ["none"]
    if n == 2:
        return ["none", "none", "ap1", "ap2", "pair"]
    return ["none", "none", "none", "ap1", "ap2", "pair", "triple", "op"]


def lever_bound(ppos, ap1, ap2, op):
    """first-order amplification factor of per-atom noise through the anchored two-step construction with the given
    axis points / orientation point: 2 + 2 r_max/L + 4 rho_max/d_op"""
    ppos = np.asarray(ppos, float)
    n = len(ppos)
    if n < 2:
        return 2.0
    L = np.linalg.norm(ppos[ap2] - ppos[ap1])
    r_max = max(np.linalg.norm(p - ppos[ap1]) for p in ppos)
    out = 2.0 + 2.0 * r_max / max(L, 1e-9)
    if n > 2 and op is not None:
        ax = (ppos[ap2] - ppos[ap1]) / max(L, 1e-9)
        rho = [np.linalg.norm((p - ppos[ap1]) - np.dot(p - ppos[ap1], ax) * ax) for p in ppos]
        d_op = rho[op]
        out += 4.0 * max(rho) / max(d_op, 1e-9)
    return out


@st.composite
def hints(draw, pat, force_form=None):
    """valid hints: distinct indices; orientation point at distance >= 0.3 from the axis line.
    returns ([ap1, ap2, op], form)"""
    ppos = np.asarray(pat["pos"], float)
    n = len(ppos)
    form = force_form or draw(st.sampled_from(hint_forms(n)))
    if form == "none":
        return [None, None, None], form
    idx = hperm.integers(0, n - 1)
    # index 0 is over-sampled (falsy-zero handling is the obvious hazard)
    first = draw(st.one_of(st.just(0), idx))
    if form == "ap1":
        return [first, None, None], form
    if form == "ap2":
        return [None, first, None], form
    if form == "pair" or n == 2:
        second = draw(idx.filter(lambda k: k != first))
        return [first, second, None], "pair"
    d = ppos[:, None] - ppos[None]
    dd = (d ** 2).sum(-1)
    if form == "op":
        # with an automatic axis the orientation hint is only well-defined when the farthest pair is unique
        if int((dd >= dd.max() - 1e-6).sum()) > 2:
            return [None, None, None], "none"
        ap1, ap2 = np.unravel_index(np.argmax(dd), dd.shape)
    else:
        ap1 = first
        ap2 = draw(idx.filter(lambda k: k != ap1))
    ax = ppos[ap2] - ppos[ap1]
    ax = ax / np.linalg.norm(ax)
    off = [k for k in range(n) if k not in (ap1, ap2) and
           np.linalg.norm((ppos[k] - ppos[ap1]) - np.dot(ppos[k] - ppos[ap1], ax) * ax) >= 0.3]
    if not off:
        if form == "op":
            return [None, None, None], "none"
        return [int(ap1), int(ap2), None], "pair"
    op = draw(st.sampled_from(off))
    if form == "op":
        return [None, None, int(op)], form
    return [int(ap1), int(ap2), int(op)], form


def effective_hints(ppos, h):
    """the axis points / orientation point the documented behaviour implies for a hint list (for the lever bound)"""
    ppos = np.asarray(ppos, float)
    n = len(ppos)
    if n < 2:
        return 0, 0, None
    d = ppos[:, None] - ppos[None]
    dd = (d ** 2).sum(-1)
    ap1, ap2, op = h
    if ap1 is None and ap2 is None:
        ap1, ap2 = np.unravel_index(np.argmax(dd), dd.shape)
    elif ap1 is None or ap2 is None:
        ap1 = ap1 if ap1 is not None else ap2
        ap2 = int(np.argmax(dd[ap1]))
    if n > 2 and op is None:
        ax = ppos[ap2] - ppos[ap1]
        ax = ax / np.linalg.norm(ax)
        rho = [np.linalg.norm((p - ppos[ap1]) - np.dot(p - ppos[ap1], ax) * ax) for p in ppos]
        op = int(np.argmax(rho))
    return int(ap1), int(ap2), op


DECOYS = ["near-miss", "mirror", "element", "loose", "loose", "out-of-plane"]


@st.composite
def planted(draw, max_copies=4, pattern_classes=None, cell_classes=None, with_decoys=True, with_hints=True,
            atols=None, min_width_extra=0.0, width_factor=1.0, max_atoms=6, min_atoms=1, tightness=None,
            pose_classes=None, noise_levels=(0.0, 1 / 64.0, 1 / 32.0), min_copies=1, pat=None, extra_diam=None,
            decoy_kinds=None, bystanders=0, oop_range=(2.05, 3.4), shuffle=True):
    """a periodic structure with planted copies of a pattern.  Returns a JSON-able case dict:
    cell, spos, sels, ppos, pels, atol, hints, seeds, meta"""
    atol = draw(st.sampled_from(atols or ATOLS))
    # decoys are displaced by multiples of the tolerance; for a zero / tiny tolerance by multiples of 0.004 A, i.e. by less
    # than the default tolerance of 0.05 A (a tolerance that is dropped on the way falls back to the default)
    dsc = atol if atol >= 1e-3 else 0.004
    if pat is None:
        pat = draw(pattern(classes=pattern_classes, max_atoms=max_atoms, min_atoms=min_atoms, alphabet=draw(st.sampled_from(ALPHABETS))))
    ppos = np.asarray(pat["pos"], float)
    n = len(ppos)
    diam = geom.diameter(ppos) if extra_diam is None else extra_diam
    min_width = width_factor * (diam + 2 * atol) + min_width_extra
    cell, cmeta = draw(cell_for(min_width, classes=cell_classes, tightness=tightness))
    h, hform = draw(hints(pat)) if with_hints else ([None, None, None], "none")
    ap1, ap2, op = effective_hints(ppos, h)
    amp = lever_bound(ppos, ap1, ap2, op) if n > 1 else 2.0
    K = draw(hperm.integers(min_copies, max_copies))
    spos, sels, copies = [], [], []
    # crowding bound (construction, not rejection): combinatorial ambiguity explodes for both mofun and the reference
    # when many same-element atoms sit within a few tolerances of each other
    n_max = max(n * min_copies, int(abs(np.linalg.det(np.array(cell))) / (4.0 + 400.0 * atol ** 3)))
    for _ in range(K):
        if len(spos) + n > n_max and len(copies) >= min_copies:
            break
        R, pcls = draw(pose(ppos, classes=pose_classes))
        af, akinds = draw(anchor_frac())
        lvl = draw(st.sampled_from(noise_levels))
        eps = lvl * atol
        if hform != "none" and eps * amp > atol / 2:
            eps = 0.0
        nz = draw(noise_vectors(n, eps))
        w, crossings, _ = place(cell, ppos, R, af, nz)
        copies.append({"start": len(spos), "pose": pcls, "crossings": crossings, "noise": eps / atol if atol else 0.0, "anchor": akinds})
        spos += w.tolist()
        sels += list(pat["els"])
    decoys = []
    if with_decoys:
        nd = draw(hperm.integers(0, 3))
        for _ in range(nd):
            if len(spos) + n > n_max:
                break
            kind = draw(st.sampled_from(decoy_kinds or DECOYS))
            R, _ = draw(pose(ppos, classes=["random", "axis"]))
            af, _ = draw(anchor_frac())
            if kind == "loose" or n == 1:
                m = draw(hperm.integers(1, 3))
                for _ in range(m):
                    f = [draw(st.floats(0, 0.999)) for _ in range(3)]
                    spos.append(geom.cart(cell, f).tolist())
                    sels.append(draw(st.sampled_from(pat["els"])))
                decoys.append("loose")
                continue
            q = ppos.copy()
            els = list(pat["els"])
            if kind == "near-miss":
                j = draw(hperm.integers(0, n - 1))
                u = draw(unit_vector())
                q[j] = q[j] + u * dsc * draw(st.floats(4.0, 12.0))
            elif kind == "out-of-plane":
                # one atom moved along the normal of a planar (or across the axis of a collinear) pattern by 2-3.4
                # tolerances: pair distances change only to second order, so the candidate passes every distance
                # filter although one atom is clearly misplaced
                c0 = q - q.mean(axis=0)
                u_, s_, vt = np.linalg.svd(c0)
                if len(q) >= 3 and s_[-1] < 1e-6 * max(1.0, s_[0]):
                    nrm = vt[-1]
                    j = draw(hperm.integers(0, n - 1))
                    q[j] = q[j] + nrm * dsc * draw(st.floats(*oop_range)) * draw(st.sampled_from([-1.0, 1.0]))
                else:
                    kind = "near-miss"
                    j = draw(hperm.integers(0, n - 1))
                    q[j] = q[j] + draw(unit_vector()) * dsc * draw(st.floats(4.0, 12.0))
            elif kind == "mirror":
                q[:, 0] = -q[:, 0]
            elif kind == "element":
                j = draw(hperm.integers(0, n - 1))
                other = [e for e in ALPHABET + ["Cl", "Na", "Si"] if e != els[j]]
                els[j] = draw(st.sampled_from(other))
            w, _, _ = place(cell, q, R, af, np.zeros((n, 3)))
            spos += w.tolist()
            sels += els
            decoys.append(kind)
    nby = draw(hperm.integers(min(1, bystanders), bystanders)) if bystanders else 0
    for _ in range(nby):
        # bystanders of elements that occur in no pattern: they can be part of no match
        f = [draw(st.floats(0, 0.999)) for _ in range(3)]
        spos.append(geom.cart(cell, f).tolist())
        sels.append(draw(st.sampled_from(["Zr", "Cu", "S"])))
    seeds = [draw(hperm.integers(0, 2 ** 31 - 1)), draw(hperm.integers(0, 2 ** 31 - 1))]
    meta = dict(cmeta)
    # storage order: copies first, then decoys, then bystanders - or (half of the cases) any order; "idx" lists the atoms of
    # each planted copy in pattern order
    N = len(spos)
    for c in copies:
        c["idx"] = list(range(c["start"], c["start"] + n))
    if shuffle and N > 1 and draw(st.booleans()):
        order = list(draw(hperm.permutations(range(N))))           # new place k holds the old atom order[k]
        new_of = {old: k for k, old in enumerate(order)}
        spos = [spos[i] for i in order]
        sels = [sels[i] for i in order]
        for c in copies:
            c["idx"] = [new_of[i] for i in c["idx"]]
        meta["shuffled"] = True
    for c in copies:
        del c["start"]
    meta.update({"pattern_cls": pat["cls"], "copies": copies, "decoys": decoys, "hint_form": hform})
    return {"cell": cell, "spos": spos, "sels": sels, "ppos": ppos.tolist(), "pels": list(pat["els"]), "atol": atol,
            "hints": h, "seeds": seeds, "meta": meta}
