"""Lattice and rigid-fit helpers written for the harness (shares no code with mofun)."""
import itertools
import math

import numpy as np


def frac(cell, pos):
    """fractional coordinates of Cartesian row vectors; cell rows are lattice vectors"""
    return np.asarray(pos, dtype=float) @ np.linalg.inv(np.asarray(cell, dtype=float))


def cart(cell, f):
    return np.asarray(f, dtype=float) @ np.asarray(cell, dtype=float)


def wrap(cell, pos):
    f = frac(cell, pos)
    f = f - np.floor(f)
    f[f >= 1.0] = 0.0
    return cart(cell, f)


def perp_widths(cell):
    cell = np.asarray(cell, dtype=float)
    vol = abs(np.linalg.det(cell))
    a, b, c = cell
    return np.array([vol / np.linalg.norm(np.cross(b, c)),
                     vol / np.linalg.norm(np.cross(a, c)),
                     vol / np.linalg.norm(np.cross(a, b))])


def diameter(pos):
    pos = np.asarray(pos, dtype=float)
    if len(pos) < 2:
        return 0.0
    d = pos[:, None, :] - pos[None, :, :]
    return float(np.sqrt((d ** 2).sum(-1)).max())


def image_block(k=2):
    return np.array(list(itertools.product(range(-k, k + 1), repeat=3)), dtype=int)


def is_lattice_vector(cell, v, tol=1e-7):
    f = frac(cell, v)
    return bool(np.all(np.abs(f - np.round(f)) <= tol))


def lattice_diff(cell, a, b):
    """a - b reduced to the shortest representative over a 5x5x5 block; returns the Euclidean length"""
    cell = np.asarray(cell, dtype=float)
    d = frac(cell, np.asarray(a, float) - np.asarray(b, float))
    d = d - np.round(d)
    best = np.inf
    for n in image_block(1):
        best = min(best, float(np.linalg.norm(cart(cell, d + n))))
    return best


def min_image_dist(cell, a, b, k=2):
    cell = np.asarray(cell, dtype=float)
    d0 = np.asarray(a, float) - np.asarray(b, float)
    offs = image_block(k) @ cell
    return float(np.sqrt(((d0 + offs) ** 2).sum(-1)).min())


def kabsch(P, Y):
    """best proper rotation R and translation t with R p_i + t ~ y_i (row vectors: P @ R.T + t).
    returns R, t, rmsd, maxdev"""
    P = np.asarray(P, dtype=float)
    Y = np.asarray(Y, dtype=float)
    n = len(P)
    pc = P.mean(axis=0)
    yc = Y.mean(axis=0)
    if n == 1:
        return np.eye(3), yc - pc, 0.0, 0.0
    A = (P - pc).T @ (Y - yc)
    U, S, Vt = np.linalg.svd(A)
    d = np.sign(np.linalg.det(Vt.T @ U.T))
    if d == 0:
        d = 1.0
    D = np.diag([1.0, 1.0, d])
    R = Vt.T @ D @ U.T
    t = yc - R @ pc
    res = P @ R.T + t - Y
    dev = np.sqrt((res ** 2).sum(-1))
    return R, t, float(np.sqrt((dev ** 2).mean())), float(dev.max())


def minimax_translation_residual(P, Y, R):
    """for a fixed rotation R, the translation minimising the max per-component residual (midrange), and that residual
    per component (array (n,3) of |residual|)"""
    res = np.asarray(Y, float) - np.asarray(P, float) @ np.asarray(R, float).T
    t = (res.max(axis=0) + res.min(axis=0)) / 2.0
    return t, np.abs(res - t)


def quat_to_matrix(q):
    """q = (x, y, z, w), need not be normalised"""
    x, y, z, w = q
    n = math.sqrt(x * x + y * y + z * z + w * w)
    x, y, z, w = x / n, y / n, z / n, w / n
    return np.array([
        [1 - 2 * (y * y + z * z), 2 * (x * y - z * w), 2 * (x * z + y * w)],
        [2 * (x * y + z * w), 1 - 2 * (x * x + z * z), 2 * (y * z - x * w)],
        [2 * (x * z - y * w), 2 * (y * z + x * w), 1 - 2 * (x * x + y * y)]])


def axis_angle_matrix(axis, angle):
    axis = np.asarray(axis, float)
    axis = axis / np.linalg.norm(axis)
    s = math.sin(angle / 2)
    return quat_to_matrix((axis[0] * s, axis[1] * s, axis[2] * s, math.cos(angle / 2)))


def rotation_from_to(v1, v2):
    """a proper rotation taking direction v1 to direction v2 (any one of them)"""
    v1 = np.asarray(v1, float) / np.linalg.norm(v1)
    v2 = np.asarray(v2, float) / np.linalg.norm(v2)
    c = float(np.dot(v1, v2))
    ax = np.cross(v1, v2)
    if np.linalg.norm(ax) < 1e-12:
        if c > 0:
            return np.eye(3)
        # antiparallel: rotate by pi about any axis orthogonal to v1
        o = np.array([1.0, 0, 0]) if abs(v1[0]) < 0.9 else np.array([0, 1.0, 0])
        ax = np.cross(v1, o)
        return axis_angle_matrix(ax, math.pi)
    return axis_angle_matrix(ax, math.atan2(np.linalg.norm(ax), c))


AXIS_ROTATIONS = None


def axis_rotations():
    """the 24 proper axis-aligned rotations"""
    global AXIS_ROTATIONS
    if AXIS_ROTATIONS is None:
        out = []
        for perm in itertools.permutations(range(3)):
            for signs in itertools.product([1, -1], repeat=3):
                M = np.zeros((3, 3))
                for i, (p, s) in enumerate(zip(perm, signs)):
                    M[i, p] = s
                if np.linalg.det(M) > 0:
                    out.append(M)
        AXIS_ROTATIONS = out
    return AXIS_ROTATIONS


def chirality_height(pos):
    """for >=4 atoms: the largest |signed volume|/base-area-ish measure: max over quadruples of the distance of the 4th
    point from the plane of the other three (0 for planar sets)"""
    pos = np.asarray(pos, float)
    best = 0.0
    n = len(pos)
    for i, j, k, l in itertools.combinations(range(n), 4):
        for a, b, c, d in ((i, j, k, l), (i, j, l, k), (i, k, l, j), (j, k, l, i)):
            nrm = np.cross(pos[b] - pos[a], pos[c] - pos[a])
            nn = np.linalg.norm(nrm)
            if nn > 1e-9:
                best = max(best, abs(np.dot(pos[d] - pos[a], nrm / nn)))
    return best


def kabsch_weighted(P, Y, w):
    """proper rotation + translation minimising sum_i w_i |R p_i + t - y_i|^2 ; returns (weighted mean square, deviations)"""
    P = np.asarray(P, float)
    Y = np.asarray(Y, float)
    w = np.asarray(w, float)
    w = w / w.sum()
    pc = (w[:, None] * P).sum(axis=0)
    yc = (w[:, None] * Y).sum(axis=0)
    A = ((P - pc) * w[:, None]).T @ (Y - yc)
    U, S, Vt = np.linalg.svd(A)
    d = np.sign(np.linalg.det(Vt.T @ U.T)) or 1.0
    R = Vt.T @ np.diag([1.0, 1.0, d]) @ U.T
    t = yc - R @ pc
    dev = np.sqrt(((P @ R.T + t - Y) ** 2).sum(-1))
    return float((w * dev ** 2).sum()), dev


def minimax_lower_bound(P, Y, iters=40):
    """certified lower bound on  min over proper rigid motions of  max_i |R p_i + t - y_i| :
    for ANY weights w (sum 1) the weighted least-squares optimum is <= the weighted mean square of the minimax-optimal
    motion <= (minimax deviation)^2.  Lawson's iteration (w_i <- w_i * dev_i) drives the weights towards the worst atoms;
    the largest value seen is returned."""
    n = len(P)
    w = np.full(n, 1.0 / n)
    best = 0.0
    for _ in range(iters):
        ms, dev = kabsch_weighted(P, Y, w)
        best = max(best, ms)
        if dev.max() < 1e-14:
            break
        w = w * (dev + 1e-300)
        s = w.sum()
        if s <= 0:
            break
        w = w / s
    return float(np.sqrt(best))
