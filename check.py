#!/venv/bin/python
"""Single entry point:  check.py <Cxx> [--tier quick|thorough] [--replay FILE]

exit 0  property held on everything explored (KNOWN-FINDING lines may be printed)
exit 1  VIOLATION property=<id> replay=<path>
exit 2  harness error (never a VIOLATION)
"""
import argparse
import os
import subprocess
import sys

HERE = os.path.dirname(os.path.abspath(__file__))


def _ensure_env():
    # a fixed hash seed makes set/dict iteration inside mofun and the harness a pure function of the inputs
    if os.environ.get("PYTHONHASHSEED") != "0" or os.environ.get("OMP_NUM_THREADS") != "1":
        env = dict(os.environ)
        env["PYTHONHASHSEED"] = "0"
        # one BLAS/OpenMP thread per worker process: the 16 workers already use all cores
        for k in ("OMP_NUM_THREADS", "OPENBLAS_NUM_THREADS", "MKL_NUM_THREADS", "NUMEXPR_NUM_THREADS"):
            env[k] = "1"
        os.execve(sys.executable, [sys.executable] + sys.argv, env)


def _ensure_deps():
    try:
        import hypothesis  # noqa
    except ImportError:
        subprocess.run([sys.executable, "-m", "pip", "install", "-q", "--no-index", "--find-links",
                        "/opt/veriftools/wheels", "hypothesis"], check=False,
                       stdout=subprocess.DEVNULL, stderr=subprocess.DEVNULL)
        try:
            import hypothesis  # noqa
        except ImportError:
            print("HARNESS-ERROR: hypothesis is not importable and could not be installed offline")
            sys.exit(2)


def main():
    ap = argparse.ArgumentParser()
    ap.add_argument("property")
    ap.add_argument("--tier", default=os.environ.get("VERIF_TIER", "quick"), choices=["quick", "thorough"])
    ap.add_argument("--replay")
    args = ap.parse_args()
    _ensure_env()
    _ensure_deps()
    sys.path.insert(0, HERE)
    os.chdir(HERE)
    from mv import runner
    prop = args.property.upper()
    seed = int(os.environ.get("VERIF_SEED", "1") or 1)
    try:
        if args.replay:
            v = runner.replay_file(prop, args.replay)
            if v is not None:
                print("VIOLATION property=%s replay=%s" % (prop, args.replay))
                print("  %s" % v)
                return 1
            print("OK property=%s replay=%s passes" % (prop, args.replay))
            return 0
        return runner.run_check(prop, args.tier, seed)
    except SystemExit:
        raise
    except BaseException:
        import traceback
        print("HARNESS-ERROR property=%s\n%s" % (prop, traceback.format_exc()))
        return 2


if __name__ == "__main__":
    sys.exit(main())
