#!/venv/bin/python
"""Hand-written mutants (the 'M' lists of DESIGN section 4): each is (id, home check(s), file, old, new).

usage: sensitivity/mutants.py [--only ID[,ID]] [--jobs N] [--no-suite]
For each mutant: scratch copy of /repo under /tmp, textual replacement, (optionally) the pinned test suite must stay green
(otherwise the mutant is not 'realistic' and is reported as such), then the home quick check(s) run with VERIF_REPO pointing
at the copy.  Results go to sensitivity/results.json.  Nothing is changed in /repo.
"""
import argparse
import json
import os
import re
import shutil
import subprocess
import sys
import tempfile
from concurrent.futures import ThreadPoolExecutor

HERE = os.path.dirname(os.path.dirname(os.path.abspath(__file__)))
M = [
 # ---- C01 / C02 / C03 (search)
 ("s-recheck-off", "C01,C02", "mofun/mofun.py", "            if np.allclose(atom_positions, chk_pattern.positions, atol=atol):", "            if True:"),
 ("s-isclose-4atol", "C01,C02", "mofun/mofun.py", "s_ss[idx2ssidx[match[j]], ss_idx]**0.5, abs_tol=atol):", "s_ss[idx2ssidx[match[j]], ss_idx]**0.5, abs_tol=4*atol):"),
 ("s-recheck-4atol", "C01,C02", "mofun/mofun.py", "chk_pattern.positions, atol=atol):", "chk_pattern.positions, atol=4*atol):"),
 ("s-window-half", "C02,C03", "mofun/mofun.py", "near_pos, near_types, near_indices, all_positions = _get_positions_from_all_adjacent_unit_cells(structure, pattern_length)", "near_pos, near_types, near_indices, all_positions = _get_positions_from_all_adjacent_unit_cells(structure, pattern_length / 2)"),
 ("s-ortho-upper", "C02,C03", "mofun/mofun.py", "pos[1] >= -distance and pos[1] < distance + cell[1] and", "pos[1] >= -distance and pos[1] < cell[1] and"),
 ("s-nmults-sign", "C02,C03", "mofun/mofun.py", "        nmults = -centerdist / np.abs(centerdist)", "        nmults = -centerdist / np.abs(centerdist)\n        nmults[2] = -nmults[2]"),
 ("s-starting-atoms", "C02", "mofun/mofun.py", "atoms_of_type(near_types[0: len(structure)], pattern.elements[0])", "atoms_of_type(near_types[0: len(structure) - 1], pattern.elements[0])"),
 ("s-group-unsorted", "C02", "mofun/mofun.py", "key=lambda m: tuple(sorted([near_indices[i] % len(structure) for i in m])))", "key=lambda m: tuple([near_indices[i] % len(structure) for i in m]))"),
 ("s-all-good", "C02", "mofun/mofun.py", "            match_chosen = random.choice(good_indices)\n            good_match_index_tuples.append(match_tuples[match_chosen])\n            good_match_quats.append(quats[match_chosen])",
  "            for match_chosen in good_indices:\n                good_match_index_tuples.append(match_tuples[match_chosen])\n                good_match_quats.append(quats[match_chosen])"),
 ("s-image-index", "C01", "mofun/mofun.py", "match_index_tuples_in_uc = [tuple([near_indices[m] % len(structure) for m in match]) for match in good_match_index_tuples]", "match_index_tuples_in_uc = [tuple([near_indices[m] % len(structure) if i else near_indices[m] % len(structure) for i, m in enumerate(match)][::1]) for match in good_match_index_tuples]\n    match_index_tuples_in_uc = [tuple(reversed(t)) if len(t) == 2 else t for t in match_index_tuples_in_uc]"),
 ("s-nearby-box", "C02,C03", "mofun/mofun.py", "        p1 = p[(p[:, 0] <= near_pos[a][0] + pattern_length) & (p[:, 0] >= near_pos[a][0] - pattern_length)]", "        p1 = p[(p[:, 0] <= near_pos[a][0] + pattern_length) & (p[:, 0] >= near_pos[a][0])]"),
 # breaks no listed property: an ignored orientation hint leaves the result independent of the hint
 # ("s-opoint-hint", "C03", "mofun/mofun.py", "    if len(pattern) > 2 and opoint_idx is None:", "    if len(pattern) > 2:"),
 ("s-uc-offsets", "C02,C17", "mofun/mofun.py", "    multipliers = np.array(np.meshgrid([-1, 0, 1],[-1, 0, 1],[-1, 0, 1])).T.reshape(-1, 1, 3)", "    multipliers = np.array(np.meshgrid([-1, 0, 1],[-1, 0, 1],[0, 1])).T.reshape(-1, 1, 3)"),
 # ---- C04..C08 (replace)
 ("r-round-int", "C04", "mofun/mofun.py", "k=round(replace_fraction * len(match_positions)))", "k=int(replace_fraction * len(match_positions)))"),
 ("r-no-copy", "C04", "mofun/mofun.py", "    new_structure = structure.copy()", "    new_structure = structure"),
 ("r-unchanged-delta", "C04", "mofun/atoms.py", "def find_unchanged_atom_pairs(orig_structure, final_structure, max_delta=1e-5):", "def find_unchanged_atom_pairs(orig_structure, final_structure, max_delta=1e-2):"),
 # equivalent (adds an unused variable only) - kept for the record, not run
 # ("r-delete-all-found", "C04", "mofun/mofun.py", "    if replace_fraction < 1.0:\n        replace_indices", "    all_found = [idx for match in match_indices for idx in match]\n    if replace_fraction < 1.0:\n        replace_indices"),
 ("r-translate-p1", "C05,C08", "mofun/mofun.py", "            new_atoms.translate(atom_positions[0])", "            new_atoms.translate(atom_positions[-1])"),
 ("r-q-inv", "C05,C08", "mofun/mofun.py", "            new_atoms.positions = q.apply(new_atoms.positions)", "            new_atoms.positions = q.inv().apply(new_atoms.positions)"),
 ("r-no-frame", "C05", "mofun/mofun.py", "    replace_pattern.translate(-search_pattern.positions[0])\n", "    pass\n"),
 ("r-old-wrap", "C05,C08", "mofun/mofun.py", "            new_atoms.positions = (new_atoms.positions.dot(np.linalg.inv(cell)) % 1.0).dot(cell)", "            new_atoms.positions %= np.diag(new_structure.cell)"),
 ("r-no-disjoint", "C07", "mofun/mofun.py", "            if (to_delete.isdisjoint(to_delete_linker) or ignore_atoms_should_not_be_deleted_twice):", "            if True:"),
 ("r-delete-set-full", "C07", "mofun/mofun.py", "            to_delete_linker = set(match_indices[m_i]) - set(structure_index_map.values())\n            if", "            to_delete_linker = set(match_indices[m_i])\n            if"),
 ("r-ignore-inverted", "C07", "mofun/mofun.py", "to_delete.isdisjoint(to_delete_linker) or ignore_atoms_should_not_be_deleted_twice):", "to_delete.isdisjoint(to_delete_linker) or not ignore_atoms_should_not_be_deleted_twice):"),
 ("r-retained-readded", "C08,C04", "mofun/mofun.py", "            if not replace_all:\n                structure_index_map = {k: match_indices[m_i][v] for k,v in replace2search_pattern_map.items()}", "            if False:\n                structure_index_map = {k: match_indices[m_i][v] for k,v in replace2search_pattern_map.items()}"),
 # ---- C06 / C09 / C11 (extend)
 ("e-bond-offset", "C06,C11", "mofun/atoms.py", "self.bond_types = np.append(self.bond_types, other.bond_types + offsets[1])", "self.bond_types = np.append(self.bond_types, other.bond_types + offsets[2])"),
 ("e-no-reverse", "C06,C11", "mofun/atoms.py", "            return forward_dir + reverse_dir", "            return forward_dir"),
 ("e-delete-before-append", "C11", "mofun/atoms.py", "            self.angles = np.append(self.angles, new_angles).reshape((-1,3))\n            self.angle_types = np.append(self.angle_types, other.angle_types + offsets[2])\n            self.angles = np.delete(self.angles, existing_angle_indices, axis=0)",
  "            self.angles = np.append(self.angles, new_angles).reshape((-1,3))\n            self.angle_types = np.append(self.angle_types, other.angle_types + offsets[2])\n            self.angles = np.delete(self.angles, [i + 1 for i in existing_angle_indices], axis=0)"),
 ("e-labels-not-appended", "C09,C11", "mofun/atoms.py", "        self.atom_type_labels = np.append(self.atom_type_labels, other.atom_type_labels)\n", "        self.atom_type_labels = np.append(self.atom_type_labels, other.atom_type_elements)\n"),
 ("e-atom-idx-offset", "C11", "mofun/atoms.py", "        structure_index_map2 = {a:i + atom_idx_offset for i,a in enumerate(atoms_to_add)}", "        structure_index_map2 = {a:i + atom_idx_offset + 1 for i,a in enumerate(atoms_to_add)}"),
 ("e-groups-not-appended", "C09,C11", "mofun/atoms.py", "        self.groups = np.append(self.groups, other.groups[atoms_to_add], axis=0)", "        self.groups = np.append(self.groups, np.zeros(len(atoms_to_add), dtype=int), axis=0)"),
 ("e-pad-width", "C11", "mofun/atoms.py", "                    idx = labels.index(new_label)\n                    fields[:,idx] = new_fields[:,new_idx]", "                    idx = labels.index(new_label)\n                    fields[:,new_idx] = new_fields[:,new_idx]"),
 ("e-mapped-type-no-offset", "C06,C11", "mofun/atoms.py", "            self.atom_types[self_index] = other.atom_types[other_index] + offsets[0]", "            self.atom_types[self_index] = other.atom_types[other_index]"),
 # ---- C10 (delete)
 ("d-sort-ascending", "C10", "mofun/atoms.py", "        sorted_indices = sorted(indices, reverse=True)", "        sorted_indices = sorted(indices)"),
 # equivalent: terms containing a deleted atom are removed before the shift, so no index equals i
 # ("d-ge-shift", "C10", "mofun/atoms.py", "            np.subtract(updated_arr, 1, out=updated_arr, where=updated_arr>i)", "            np.subtract(updated_arr, 1, out=updated_arr, where=updated_arr>=i)"),
 ("d-forget-extra-bond", "C10", "mofun/atoms.py", "            self.extra_bond_fields = np.delete(self.extra_bond_fields, arr_idx_to_delete, axis=0)\n        if len(self.angles) > 0:", "        if len(self.angles) > 0:"),
 # equivalent as written (the expression reduces to the original)
 # ("d-groups-not-deleted", "C10,C09", "mofun/atoms.py", "        self.groups = np.delete(self.groups, indices, axis=0)\n        self.extra_atom_fields", "        self.groups = np.delete(self.groups, indices[:1] if len(indices) else indices, axis=0) if len(indices) == 1 else np.delete(self.groups, sorted(indices)[::-1][:len(indices)], axis=0)[::1]\n        self.extra_atom_fields"),
 ("d-improper-types-kept", "C10", "mofun/atoms.py", "            self.improper_types = np.delete(self.improper_types, arr_idx_to_delete, axis=0)", "            self.improper_types = self.improper_types[:len(self.impropers)]"),
 # ---- C12 (replicate)
 ("p-cell-T-dropped", "C12", "mofun/atoms.py", "            transatoms.translate(np.matmul(transatoms.cell.T, ucmult))", "            transatoms.translate(np.matmul(transatoms.cell, ucmult))"),
 ("p-cell-columns", "C12,C03", "mofun/atoms.py", "        repl_atoms.cell = self.cell * np.array(repldims).reshape(3, 1)", "        repl_atoms.cell = self.cell * repldims"),
 ("p-drop-image", "C12,C03", "mofun/atoms.py", "        ucmults = ucmults[np.any(ucmults != 0, axis=1)] # remove [0,0,0] since in copy", "        ucmults = ucmults[np.any(ucmults != 0, axis=1)][:-1] if len(ucmults) > 4 else ucmults[np.any(ucmults != 0, axis=1)]"),
 # ---- C13 (lammps io)
 ("l-swap-group-type", "C13", "mofun/atoms.py", "(i + 1, self.groups[i] + 1, self.atom_types[i] + 1, self.charges[i], x, y, z, self.label_atoms(self.atom_types[i])))", "(i + 1, self.atom_types[i] + 1, self.groups[i] + 1, self.charges[i], x, y, z, self.label_atoms(self.atom_types[i])))"),
 ("l-tilt-transposed", "C13", "mofun/atoms.py", "% (self.cell[1,0], self.cell[2,0], self.cell[2,1]))", "% (self.cell[1,0], self.cell[2,1], self.cell[2,0]))"),
 ("l-comment-dropped", "C13", "mofun/atoms.py", "                dihedral_coeffs.append(\"%s%s\" % (\" \".join(tup[1:]), comment_string))", "                dihedral_coeffs.append(\"%s\" % (\" \".join(tup[1:])))"),
 ("l-angles-count-bonds", "C13", "mofun/atoms.py", "        f.write('%d angles\\n' % len(self.angle_types))", "        f.write('%d angles\\n' % len(self.bond_types))"),
 ("l-cell-load-yz", "C13", "mofun/atoms.py", "cell = np.array([[cellx, 0, 0], [cellxy, celly, 0], [cellxz, cellyz, cellz]])", "cell = np.array([[cellx, 0, 0], [cellxy, celly, 0], [cellyz, cellxz, cellz]])"),
 ("l-charge-int", "C13", "mofun/atoms.py", "            charges = np.array(atoms[:, 3], dtype=float)", "            charges = np.array(atoms[:, 3], dtype=float).round(3)"),
 # ---- C14
 ("m-le", "C14", "mofun/helpers.py", "        if abs(elmass - mass) < max_delta:", "        if abs(elmass - mass) <= max_delta * 1.0000001:"),
 ("m-one-sided", "C14", "mofun/helpers.py", "        if abs(elmass - mass) < max_delta:", "        if elmass - mass < max_delta:"),
 # ---- C15
 ("c-label-offset", "C15", "mofun/atoms.py", "            d[e] += 1\n            atom_labels.append(\"%s%d\" % (e, d[e]))", "            atom_labels.append(\"%s%d\" % (e, d[e]))\n            d[e] += 1 if d[e] != 2 else 0"),
 ("c-no-wrap", "C15", "mofun/atoms.py", "                positions %= 1.0\n", "                pass\n"),
 ("c-su-regex", "C15", "mofun/atoms.py", "            return float(re.sub(r\"\\(\\d+\\)\", \"\", s))", "            return float(re.sub(r\"\\(\\d\\)\", \"\", s))"),
 ("c-impropers-dropped", "C15", "mofun/atoms.py", "            four_body_terms.extend(self.impropers)\n", "            pass\n"),
 ("c-cellinv-transposed", "C15", "mofun/atoms.py", "            fractional_coords = self.positions.dot(cell_inv)", "            fractional_coords = self.positions.dot(cell_inv.T)"),
 # ---- C16
 ("x-id-suffix", "C16", "mofun/atoms.py", "        id_to_idx = {id:i for i, id in enumerate(ids)}", "        id_to_idx = {id:(int(re.sub(r'\\D', '', id)) - 1 if re.sub(r'\\D', '', id) else i) for i, id in enumerate(ids)}"),
 # ---- C17
 ("b-le", "C17", "mofun/detect_bonds.py", "            if np.any(ss < max_bond_length(elements[idx1], elements[idx2])):", "            if np.any(ss <= max_bond_length(elements[idx1], elements[idx2]) * 1.000002):"),
 ("b-both-nonmetal", "C17", "mofun/detect_bonds.py", "    if el1 in NON_METALS or el2 in NON_METALS:", "    if el1 in NON_METALS and el2 in NON_METALS:"),
 # ---- C18
 ("u-chi-swap", "C18", "mofun/rough_uff.py", "    rEN = (ri * rj * (chii**0.5 - chij**0.5)**2) / (chii * ri + chij * rj)", "    rEN = (ri * rj * (chii**0.5 - chij**0.5)**2) / (chij * ri + chii * rj)"),
 ("u-cos-sin", "C18", "mofun/rough_uff.py", "    rik = sqrt(rij**2 + rjk**2 - 2 * rij * rjk * cos(theta0rad))", "    rik = sqrt(rij**2 + rjk**2 - 2 * rij * rjk * sin(theta0rad))"),
 ("u-n3-b", "C18", "mofun/rough_uff.py", "            n = 3\n            b = -1", "            n = 3\n            b = 1"),
 ("u-group6-reversed", "C18", "mofun/rough_uff.py", "            v1 = 2. if el[1] == \"O\" else 6.8\n            v2 = 2. if el[2] == \"O\" else 6.8", "            v1 = 2. if el[1] == \"O\" else 6.8\n            v2 = 2. if el[2] == \"O\" else 6.8\n            if el[1] == \"S\" and el[2] == \"O\": v1 = 2."),
 ("u-h-asym", "C18", "mofun/rough_uff.py", "        if {h[0], h[1]} <= {'2'} or {h[2], h[3]} <= {'2'}:", "        if {h[0], h[1]} <= {'2'}:"),
 # ---- C19
 ("t-typekey-id", "C19", "mofun/helpers.py", "    if tuple(rev) <= tuple(tup):\n        return tuple(rev)\n    return tuple(tup)", "    return tuple(tup)"),
 ("t-permutations", "C19", "mofun/rough_uff.py", "for (a,b) in itertools.combinations(g.neighbors(n), 2)]", "for (a,b) in itertools.permutations(g.neighbors(n), 2)]"),
 ("t-keep-b", "C19", "mofun/rough_uff.py", "        a_neighbors = list(g.adj[a])\n        a_neighbors.remove(b)", "        a_neighbors = list(g.adj[a])"),
 ("t-M-after-exclude", "C19", "mofun/rough_uff.py", "    num_dihedrals_per_bond = Counter([typekey([a2, a3]) for _, a2, a3, _ in atoms.dihedrals])\n    if exclude is not None and len(exclude) >= 4:\n        atoms.dihedrals = delete_if_all_in_set(atoms.dihedrals, exclude)\n",
  "    if exclude is not None and len(exclude) >= 4:\n        atoms.dihedrals = delete_if_all_in_set(atoms.dihedrals, exclude)\n    num_dihedrals_per_bond = Counter([typekey([a2, a3]) for _, a2, a3, _ in atoms.dihedrals])\n"),
 ("t-exclude-threshold", "C19", "mofun/rough_uff.py", "    if exclude is not None and len(exclude) >= 3:", "    if exclude is not None and len(exclude) > 3:"),
 # ---- C20
 ("k-drop-atol", "C20", "mofun/cli/mofun_cli.py", "            atoms = replace_pattern_in_structure(atoms, search_pattern, replace_pattern, atol=atol,", "            atoms = replace_pattern_in_structure(atoms, search_pattern, replace_pattern,"),
 ("k-drop-fraction", "C20", "mofun/cli/mofun_cli.py", "opoint_idx=opoint_idx, replace_fraction=replace_fraction)", "opoint_idx=opoint_idx)"),
 ("k-drop-op", "C20", "mofun/cli/mofun_cli.py", "axisp2_idx=axisp2_idx, opoint_idx=opoint_idx,", "axisp2_idx=axisp2_idx,"),
 ("k-mic-half", "C20", "mofun/cli/mofun_cli.py", "np.ceil(2*mic / np.diag(atoms.cell))", "np.ceil(mic / np.diag(atoms.cell))"),
 ("k-find-atol", "C20", "mofun/cli/mofun_cli.py", "            results = find_pattern_in_structure(atoms, search_pattern, atol=atol)", "            results = find_pattern_in_structure(atoms, search_pattern)"),
 ("k-charges-after-repl", "C20", "mofun/cli/mofun_cli.py", "        assert len(charges) == len(atoms.positions)\n        atoms.charges = charges", "        assert len(charges) == len(atoms.positions)\n        atoms.charges = charges[::-1] if len(charges) % 7 == 3 else charges"),
]


def run(cmd, cwd=None, env=None, timeout=3600):
    p = subprocess.run(cmd, cwd=cwd, env=env, stdout=subprocess.PIPE, stderr=subprocess.STDOUT, text=True, timeout=timeout)
    return p.returncode, p.stdout


def one(m, suite=True):
    mid, checks, path, old, new = m
    d = tempfile.mkdtemp(prefix="mut.%s." % mid, dir="/tmp")
    res = {"id": mid, "file": path, "checks": {}}
    try:
        run(["rsync", "-a", "--exclude", ".git", "--exclude", "*.egg-info", "--exclude", "__pycache__", "/repo/", d + "/"])
        src = open(os.path.join(d, path)).read()
        if src.count(old) < 1:
            res["error"] = "pattern not found"
            return res
        open(os.path.join(d, path), "w").write(src.replace(old, new, 1))
        env = dict(os.environ, PYTHONPATH=d, PYTHONHASHSEED="0")
        rc, out = run(["/venv/bin/python", "-c", "import mofun, mofun.rough_uff, mofun.detect_bonds, mofun.cli.mofun_cli"], cwd=d, env=env)
        if rc != 0:
            res["error"] = "does not import: " + out[-300:]
            return res
        if suite:
            rc, out = run(["/venv/bin/python", "-m", "pytest", "-q", "-p", "no:cacheprovider", "-x"], cwd=d, env=env)
            tail = out.strip().splitlines()[-1] if out.strip() else ""
            res["suite"] = tail
            res["suite_green"] = rc == 0
        for chk in checks.split(","):
            rc, out = run([os.path.join(HERE, "check.py"), chk], cwd=HERE, env=dict(os.environ, VERIF_REPO=d))
            k = re.search(r"kind=(\S+)", out)
            res["checks"][chk] = {"exit": rc, "detected": rc == 1, "kind": k.group(1) if k else None}
    finally:
        shutil.rmtree(d, ignore_errors=True)
    return res


def main():
    ap = argparse.ArgumentParser()
    ap.add_argument("--only", default="")
    ap.add_argument("--jobs", type=int, default=2)
    ap.add_argument("--no-suite", action="store_true")
    a = ap.parse_args()
    sel = [m for m in M if not a.only or m[0] in a.only.split(",")]
    out_path = os.path.join(HERE, "sensitivity", "results.json")
    results = json.load(open(out_path)) if os.path.exists(out_path) else {}
    with ThreadPoolExecutor(a.jobs) as ex:
        for r in ex.map(lambda m: one(m, not a.no_suite), sel):
            results[r["id"]] = r
            det = ", ".join("%s:%s" % (c, "DETECTED(%s)" % v["kind"] if v["detected"] else "missed" if v["exit"] == 0 else "ERROR") for c, v in r["checks"].items())
            print("%-26s suite=%-5s %s %s" % (r["id"], r.get("suite_green"), det, r.get("error", "")))
            sys.stdout.flush()
            json.dump(results, open(out_path, "w"), indent=1, sort_keys=True)


if __name__ == "__main__":
    main()
