"""C05 — inserted atoms land where the replacement pattern says, modulo the lattice."""
import math

import numpy as np
from hypothesis import strategies as st

from mv import hperm

from mv import gen_geom, geom, mf, repl
from mv.quiet import silenced
from mv.runner import HypPart, Violation

PROPERTY = "C05"
RULE = ("Replacement cases (C04 generator, fraction 1, replacement with >= 1 new atom) on orthorhombic and tilted cells "
        "of every tilt-sign class with perpendicular widths > 2*diam(S u R) + 4*atol, copies in all pose classes and "
        "across 0-3 boundaries, exact and noisy copies, new atoms 0.9-4 A from the pattern (lever arm), symmetric and "
        "collinear search patterns, plus a second run with both patterns moved by one random rigid motion. Oracle: for "
        "each block of inserted atoms there is a replaced group and a feasible ordering such that search+replacement "
        "coordinates fit matched+inserted positions (unwrapped by minimum image) under one proper rotation+translation "
        "with max residual <= sqrt(n)*2*eps*amp + 2e-5 (eps = that ordering's own fit deviation, amp = lever-arm "
        "factor); every inserted atom has fractional coordinates in [0,1]; the result is the same multiset of (element, "
        "position mod lattice) after the joint rigid motion when the ordering is unique and the pattern not collinear. "
        "Non-trivial = at least one atom inserted and (a copy or an inserted atom crosses a boundary or the cell is "
        "tilted); distinct by hash of the case.")
# mofun builds its rotations from arccos(dot): for angles near 0 or pi the angle is only accurate to ~sqrt(machine eps *
# lever ratio) ~ 1e-6 rad, i.e. up to ~1e-5 A at a few A lever arm.  This is numerical noise far below any tolerance a
# user can request meaningfully (and close to the %10.6f print precision), so it is allowed for explicitly.
ABS_SLACK = 2e-5
# The same arccos step leaves the aligned pattern axis tilted by up to ~sqrt(2 ulp) ~ 1.5e-8 rad.  For a pattern that is
# almost collinear the orientation about the axis is taken from an atom a hair off the axis, so that tilt is amplified by
# the lever ratio of the pattern (amp_factor): numerical noise ~ tilt * size * amp, which reaches a few 1e-5 A when the
# orientation atom is 0.002 A off an axis 5 A long.  Allowed for explicitly, with a factor 3 margin.
NUM_TILT = 5e-8


def num_slack(case):
    pts = np.array(list(case["ppos"]) + list(case["rpos"]), float)
    return ABS_SLACK + NUM_TILT * (geom.diameter(pts) if len(pts) > 1 else 0.0) * amp_factor(case)

ASSUMPTIONS = ["absolute numerical slack of 2e-5 A on top of the tolerance-proportional bound (arccos conditioning)",
               "first-order lever-arm bound for the amplification of per-atom noise by the anchored construction",
               "identity of inserted atoms via the replacement pattern's charge tags"]


@st.composite
def strategy(draw):
    # patterns whose occurrences admit several numberings (proper symmetry, mirror pairs) get extra weight: there the
    # numbering that decides which atoms go and the rotation that places the new atoms must belong together
    case = draw(repl.replace_case(repl_kinds=["larger", "larger", "equal", "disjoint"], fractions=True,
                                  pattern_classes=gen_geom.PATTERN_CLASSES + ["symmetric", "symmetric", "mirror-pair"]))
    if case["f"] == 0.0:
        case["f"] = 1.0
    case["replace_all"] = draw(st.booleans())
    R, pcls = draw(gen_geom.pose(case["ppos"], classes=["random", "axis", "flip"]))
    case["motion"] = {"R": np.asarray(R).tolist(), "t": [draw(st.floats(-8, 8)) for _ in range(3)]}
    return case


def amp_factor(case):
    pts = np.array(list(case["ppos"]) + list(case["rpos"]), float)
    ppos = np.array(case["ppos"], float)
    n = len(ppos)
    if n < 2:
        return 2.0
    ap1, ap2, op = gen_geom.effective_hints(ppos, case["hints"])
    L = np.linalg.norm(ppos[ap2] - ppos[ap1])
    # the insertion is anchored at pattern atom 0
    r_max = max(np.linalg.norm(p - ppos[0]) for p in pts) + max(np.linalg.norm(p - ppos[ap1]) for p in ppos)
    out = 2.0 + 2.0 * r_max / max(L, 1e-9)
    collinear = n < 3 or np.linalg.matrix_rank(ppos[1:] - ppos[0], tol=1e-6) < 2
    # for an exactly collinear search pattern the twist about its axis is free (the fit below is existential over it)
    if n > 2 and op is not None and not collinear:
        ax = (ppos[ap2] - ppos[ap1]) / max(L, 1e-9)
        rho = [np.linalg.norm((p - ppos[ap1]) - np.dot(p - ppos[ap1], ax) * ax) for p in pts]
        d_op = rho[op]
        out += 4.0 * max(rho) / max(d_op, 1e-9)
    return out


def check_result(case, groups, new, stats, label, k=None):
    cell = np.array(case["cell"])
    sh, s_only, r_only = repl.shared_maps(case)
    if case["replace_all"]:
        sh, s_only, r_only = {}, list(range(len(case["ppos"]))), list(range(len(case["rpos"])))
    res = repl.resolved_atoms(new)
    rtags = {round(c, 6): j for j, c in enumerate(case["rcharges"])}
    inserted = [(rtags[round(a["charge"], 6)], a["pos"]) for a in res if round(a["charge"], 6) in rtags]
    K = len(groups) if k is None else k
    if len(inserted) != K * len(r_only):
        raise Violation("inserted-count", "%s: %d inserted atoms for %d matches x %d new atoms" % (label, len(inserted), K, len(r_only)))
    inv = np.linalg.inv(cell)
    for j, p in inserted:
        fr = p @ inv
        if fr.min() < -1e-9 or fr.max() > 1 + 1e-9:
            raise Violation("inserted-outside-cell", "%s: inserted copy of replacement atom %d at %r has fractional "
                            "coordinates %r" % (label, j, p.tolist(), fr.tolist()))
    if not r_only:
        return 0
    # group the inserted atoms into one block per replaced match WITHOUT assuming the order in which they were appended:
    # search for an assignment (replaced groups, one unused copy of every new atom each) such that every block, together
    # with its matched atoms, is a proper rigid image of search+replacement pattern
    copies = {j: [p for jj, p in inserted if jj == j] for j in r_only}
    for j in r_only:
        if len(copies[j]) != K:
            raise Violation("block-composition", "%s: %d copies of new atom %d for %d replaced matches" % (label, len(copies[j]), j, K))
    amp = amp_factor(case)
    slack = num_slack(case)
    S = np.array(case["ppos"], float)
    P = np.array([case["ppos"][i] for i in range(len(case["ppos"]))] + [case["rpos"][j] for j in r_only], float)
    offs = geom.image_block(2) @ cell
    keys = list(groups)
    pdist = {j: [float(np.linalg.norm(np.array(case["rpos"][j]) - S[m])) for m in range(len(S))] for j in r_only}

    def candidates(o, j, used):
        """unused copies of new atom j (unwrapped next to the match) that have the pattern's distances to the matched atoms"""
        Y = o["pos"]
        tol = 2 * (math.sqrt(len(P)) * 2.0 * o["maxdev"] * amp + slack) + 1e-3
        out = []
        for ci, p in enumerate(copies[j]):
            if (j, ci) in used:
                continue
            cand = p + offs
            q = cand[int(np.argmin(((cand - Y[0]) ** 2).sum(-1)))]     # unique: widths > 2 diam(S u R) + 4 atol
            if all(abs(float(np.linalg.norm(q - Y[m])) - pdist[j][m]) <= tol for m in range(len(S))):
                out.append((ci, q))
        return out

    # the numbering that explains where the new atoms are must also be the one that decided which matched atoms went and
    # which stayed: under ordering o the search-only atoms o.idx[s_only] are gone and the common atoms o.idx[shared] are
    # still there (atoms are identified by their unique charge tags)
    pl = case.get("payload")
    present = {round(a["charge"], 6) for a in res} if pl else None
    stay = sorted(set(sh.values()))

    def consistent(o):
        if present is None:
            return True
        tag = lambda i: round(pl["charges"][o["idx"][i]], 6)
        return all(tag(i) not in present for i in s_only) and all(tag(i) in present for i in stay)

    best_fail = [None]

    def fit(o, chosen):
        T = np.vstack([o["pos"], np.array([q for _, q in chosen])])
        R, t, rmsd, maxdev = geom.kabsch(P, T)
        bound = math.sqrt(len(P)) * 2.0 * o["maxdev"] * amp + slack
        if maxdev > bound and (best_fail[0] is None or maxdev - bound < best_fail[0][0]):
            best_fail[0] = (maxdev - bound, maxdev, bound, o["maxdev"], [q.tolist() for _, q in chosen])
        return maxdev <= bound

    import itertools

    def rec(gi, used, nblocks_left, acc):
        if nblocks_left == 0:
            return acc
        if len(keys) - gi < nblocks_left:
            return None
        key = keys[gi]
        for o in groups[key]["orderings"]:
            if not consistent(o):
                continue
            cands = [candidates(o, j, used) for j in r_only]
            if all(cands):
                for combo in itertools.product(*cands):
                    if fit(o, combo):
                        r = rec(gi + 1, used | {(j, ci) for j, (ci, _) in zip(r_only, combo)}, nblocks_left - 1,
                                acc + [(key, combo)])
                        if r is not None:
                            return r
        return rec(gi + 1, used, nblocks_left, acc)      # this group was not replaced (fraction < 1)

    assignment = rec(0, frozenset(), K, [])
    if assignment is None:
        bf = best_fail[0]
        raise Violation("misplaced-insertion", "%s: the inserted atoms cannot be grouped one block per replaced match such that "
                        "each block, together with its matched atoms, is a proper rigid image of search+replacement pattern%s "
                        "(amplification %.3g); inserted atoms: %r" %
                        (label, "" if bf is None else ": closest attempt has max residual %.4g > bound %.4g (fit deviation of the "
                         "match %.3g)" % (bf[1], bf[2], bf[3]), amp, [(jj, p.tolist()) for jj, p in inserted][:8]))
    ncross = 0
    for key, combo in assignment:
        for j, (ci, q) in zip(r_only, combo):
            if np.abs(q - copies[j][ci]).max() > 1e-6:
                ncross += 1
    return ncross


def multiset_equal(cell, A, B, tol):
    """greedy matching of (element, position mod lattice)"""
    B = list(B)
    for el, p in A:
        hit = None
        for k, (el2, q) in enumerate(B):
            if el2 == el and geom.lattice_diff(cell, p, q) <= tol:
                hit = k
                break
        if hit is None:
            return False, (el, p.tolist())
        B.pop(hit)
    return (not B), None


def oracle(case, stats):
    groups, reason = repl.analyse(case)
    if reason:
        stats.count("skipped:" + reason)
        return
    if not groups:
        stats.count("skipped:no-match")
        return
    s = repl.build_structure(case)
    sp, rp = repl.build_search(case), repl.build_replace(case)
    kw = dict(replace_all=case["replace_all"], replace_fraction=case["f"], return_num_matches=True)
    try:
        new, k = mf.replace(s, sp, rp, case["atol"], case["hints"], case["seeds"], **kw)
    except Exception as e:
        raise Violation("exception-in-replace", "%s: %r" % (type(e).__name__, e))
    ncross = check_result(case, groups, new, stats, "base run", k)
    # the caller moves the STRUCTURE object in place (all atoms shifted by one vector and wrapped back, written into the same
    # positions array) and replaces again with the same pattern objects: the result must describe the moved structure
    if case["seeds"][0] % 4 == 1:
        cell_ = np.array(case["cell"], float)
        v_ = np.array([0.37, -1.21, 0.73]) * (1 + (case["seeds"][1] % 5))
        moved = geom.wrap(cell_, np.array(case["spos"], float) + v_)
        case4 = dict(case)
        case4["spos"] = moved.tolist()
        g4, reason4 = repl.analyse(case4)
        if not reason4 and g4:
            s.positions[:] = moved
            try:
                new4, k4 = mf.replace(s, sp, rp, case["atol"], case["hints"], case["seeds"], **kw)
            except Exception as e:
                raise Violation("exception-in-replace", "second call after moving the structure in place: %s: %r" % (type(e).__name__, e))
            check_result(case4, g4, new4, stats, "second call after moving the structure object in place", k4)
            s.positions[:] = np.array(case["spos"], float)
            stats.count("structure-moved-in-place")
    # the caller edits the replacement pattern object in place (one new atom moved a quarter of the way towards the first
    # search atom) and calls again with the same objects: the result must follow the pattern as it is now
    sh_, s_only_, r_only_ = repl.shared_maps(case)
    if r_only_ and not case["replace_all"]:
        j = r_only_[0]
        P0 = np.array(case["ppos"][0], float)
        newp = np.array(case["rpos"][j], float) + 0.25 * (P0 - np.array(case["rpos"][j], float))
        if min(np.linalg.norm(newp - np.array(q)) for q in list(case["ppos"]) + [r_ for i_, r_ in enumerate(case["rpos"]) if i_ != j]) > 0.05:
            rp.positions[j] = newp
            case3 = dict(case)
            case3["rpos"] = [list(r_) for r_ in case["rpos"]]
            case3["rpos"][j] = newp.tolist()
            try:
                new3, k3 = mf.replace(s, sp, rp, case["atol"], case["hints"], case["seeds"], **kw)
            except Exception as e:
                raise Violation("exception-in-replace", "second call after editing the replacement pattern in place: %s: %r" % (type(e).__name__, e))
            check_result(case3, groups, new3, stats, "second call after moving replacement atom %d in place" % j, k3)
            rp.positions[j] = np.array(case["rpos"][j], float)
            stats.count("pattern-edited-in-place")
    # joint rigid motion of both patterns
    m = case["motion"]
    if case["seeds"][0] % 2:
        # the caller moves the SAME pattern objects in place and calls again (nothing may be remembered from the first call)
        sp2, rp2 = sp, rp
        sp2.positions[:] = np.array(case["ppos"], float) @ np.array(m["R"]).T + np.array(m["t"])
        if len(case["rpos"]):
            rp2.positions[:] = np.array(case["rpos"], float) @ np.array(m["R"]).T + np.array(m["t"])
        stats.count("joint-motion:in-place-on-same-objects")
    else:
        sp2, rp2 = repl.build_search(case, m), repl.build_replace(case, m)
    try:
        new2, k2 = mf.replace(s, sp2, rp2, case["atol"], case["hints"], case["seeds"], **kw)
    except Exception as e:
        raise Violation("exception-in-replace", "after joint rigid motion of both patterns: %s: %r" % (type(e).__name__, e))
    check_result(case, groups, new2, stats, "run with jointly moved patterns", k2)
    # both patterns cut out of ONE coordinate table of the caller (numpy slices: search = rows [0, n), replacement = rows
    # [n - shared, end), so the atoms they have in common are the same rows), then moved together with Atoms.translate()
    if case["seeds"][1] % 3 == 0 and len(case["rpos"]):
        from mofun import Atoms
        shared_r = sorted(sh_)
        sp_order = list(s_only_) + [sh_[r_] for r_ in shared_r]
        rp_order = shared_r + list(r_only_)
        cv = dict(case)
        cv["ppos"] = [case["ppos"][i] for i in sp_order]
        cv["pels"] = [case["pels"][i] for i in sp_order]
        cv["rpos"] = [case["rpos"][j] for j in rp_order]
        cv["rels"] = [case["rels"][j] for j in rp_order]
        cv["rcharges"] = [case["rcharges"][j] for j in rp_order]
        cv["rgroups"] = [case["rgroups"][j] for j in rp_order]
        cv["shared"] = {str(i): len(s_only_) + i for i in range(len(shared_r))}
        cv["hints"] = [None, None, None]
        gv, reason_v = repl.analyse(cv)
        if not reason_v and gv:
            table = np.array([cv["ppos"][i] for i in range(len(s_only_))] + [cv["rpos"][j] for j in range(len(cv["rpos"]))], dtype=float)
            n_ = len(cv["ppos"])
            with silenced():
                spv = Atoms(elements=list(cv["pels"]), positions=table[:n_])
                rpv = Atoms(elements=list(cv["rels"]), positions=table[len(s_only_):], charges=list(cv["rcharges"]), groups=list(cv["rgroups"]))
            try:
                na, ka = mf.replace(s, spv, rpv, case["atol"], cv["hints"], case["seeds"], **kw)
                check_result(cv, gv, na, stats, "patterns cut from one coordinate table", ka)
                with silenced():
                    spv.translate(np.array(m["t"]))
                    rpv.translate(np.array(m["t"]))
                nb, kb = mf.replace(s, spv, rpv, case["atol"], cv["hints"], case["seeds"], **kw)
            except Violation:
                raise
            except Exception as e:
                raise Violation("exception-in-replace", "patterns cut from one coordinate table: %s: %r" % (type(e).__name__, e))
            check_result(cv, gv, nb, stats, "patterns cut from one coordinate table, both moved with translate()", kb)
            stats.count("joint-motion:patterns-cut-from-one-table")
    # with a fraction < 1 the random choice of matches must be the same in both runs for the results to be comparable:
    # the RNGs are seeded identically and the number of found matches is the same, so it is
    single = all(len(g["orderings"]) == 1 for g in groups.values()) and k == k2
    ppos = np.array(case["ppos"])
    collinear = len(ppos) < 3 or np.linalg.matrix_rank(ppos[1:] - ppos[0], tol=1e-6) < 2
    meta = case["meta"]
    if single and not collinear:
        eps = max(g["orderings"][0]["maxdev"] for g in groups.values())
        tol = 2 * (math.sqrt(len(ppos) + len(case["rpos"])) * 2.0 * eps * amp_factor(case) + num_slack(case))
        cell = np.array(case["cell"])
        A = [(a["el"], a["pos"]) for a in repl.resolved_atoms(new)]
        B = [(a["el"], a["pos"]) for a in repl.resolved_atoms(new2)]
        ok, miss = multiset_equal(cell, A, B, tol)
        if not ok:
            raise Violation("joint-motion-changes-result", "moving search and replacement pattern together changes the "
                            "result: atom %r has no counterpart within %.3g" % (miss, tol))
        stats.count("joint-motion-compared")
    else:
        stats.count("joint-motion-validity-only")
    stats.count("cell:" + meta["cell_cls"])
    stats.count("tilt:" + meta["tilt_signs"])
    stats.count("pattern:" + meta["pattern_cls"])
    stats.count("noise:%s" % ("exact" if all(c["noise"] == 0 for c in meta["copies"]) else "noisy"))
    stats.count("single-ordering:%s" % single)
    stats.count("replace_all:%s" % case["replace_all"])
    stats.count("fraction:%s" % ("1" if case["f"] == 1.0 else "<1"))
    stats.count("replaced:%s-of-%d" % (k, len(groups)) if len(groups) < 4 else "replaced:of-4+")
    stats.count("inserted-atom-wrapped:%s" % (ncross > 0))
    for c in meta["copies"]:
        stats.count("crossings:%d" % c["crossings"])
    if any(c["crossings"] > 0 for c in meta["copies"]) or ncross > 0 or meta["cell_cls"] != "ortho":
        stats.mark_nontrivial(case)


# ---------------------------------------------------------------------------------------------------------------------
# replacement atoms far outside the search pattern's hull, in cells sized for the search pattern only: the inserted
# atoms may have to be wrapped by several lattice vectors.  Unwrapping by minimum image is not unique here, so the
# expected position is predicted from the matched atoms (exact copies, unique ordering, non-collinear pattern).

@st.composite
def far_strategy(draw):
    pat = draw(gen_geom.pattern(classes=["generic", "chiral", "planar", "rod"], max_atoms=5, min_atoms=3))
    case = draw(gen_geom.planted(pat=pat, max_copies=2, with_decoys=False, with_hints=False, noise_levels=(0.0,),
                                 tightness=[1.02, 1.1, 1.5], bystanders=2))
    ppos = np.array(case["ppos"])
    n = len(ppos)
    keep = sorted(draw(st.sets(hperm.integers(0, n - 1), min_size=1, max_size=n)))
    rpos = [ppos[i].tolist() for i in keep]
    rels = [case["pels"][i] for i in keep]
    shared = {str(r): s_ for r, s_ in enumerate(keep)}
    for _ in range(draw(hperm.integers(1, 3))):
        base = ppos[draw(hperm.integers(0, n - 1))]
        p = base + draw(gen_geom.unit_vector()) * draw(st.sampled_from([3.0, 6.0, 10.0, 15.0, 25.0]))
        rpos.append(p.tolist())
        rels.append(draw(st.sampled_from(["F", "Cl", "I"])))
    case["rpos"], case["rels"], case["shared"] = rpos, rels, shared
    case["rcharges"] = [round(repl.R_TAG0 + 0.01 * j, 6) for j in range(len(rpos))]
    case["rgroups"] = [4] * len(rpos)
    case["replace_all"] = draw(st.booleans())
    case["f"] = 1.0
    case["payload"] = draw(repl.payload(case["sels"]))
    return case


def far_oracle(case, stats):
    ppos = np.array(case["ppos"])
    if np.linalg.matrix_rank(ppos[1:] - ppos[0], tol=1e-3) < 2:
        stats.count("skipped:collinear")
        return
    groups, reason = repl.analyse(case)
    if reason or not groups:
        stats.count("skipped:" + (reason or "no-match"))
        return
    if any(len(g["orderings"]) != 1 for g in groups.values()):
        stats.count("skipped:several-orderings")
        return
    s = repl.build_structure(case)
    sp, rp = repl.build_search(case), repl.build_replace(case)
    try:
        new = mf.replace(s, sp, rp, case["atol"], case["hints"], case["seeds"], replace_all=case["replace_all"])
    except Exception as e:
        raise Violation("exception-in-replace", "%s: %r" % (type(e).__name__, e))
    cell = np.array(case["cell"])
    inv = np.linalg.inv(cell)
    sh, s_only, r_only = repl.shared_maps(case)
    if case["replace_all"]:
        r_only = list(range(len(case["rpos"])))
    rtags = {round(c, 6): j for j, c in enumerate(case["rcharges"])}
    inserted = [(rtags[round(a["charge"], 6)], a["pos"]) for a in repl.resolved_atoms(new) if round(a["charge"], 6) in rtags]
    if len(inserted) != len(groups) * len(r_only):
        raise Violation("inserted-count", "%d inserted atoms for %d matches x %d new atoms" % (len(inserted), len(groups), len(r_only)))
    nwrap = 0
    for j, p in inserted:
        fr = p @ inv
        if fr.min() < -1e-9 or fr.max() > 1 + 1e-9:
            raise Violation("inserted-outside-cell", "inserted copy of replacement atom %d at %r has fractional coordinates "
                            "%r (replacement atom %.1f A from the pattern, cell widths %r)" %
                            (j, p.tolist(), fr.tolist(), min(np.linalg.norm(np.array(case["rpos"][j]) - q) for q in ppos),
                             np.round(geom.perp_widths(cell), 2).tolist()))
    # predicted positions
    remaining = list(inserted)
    lever = max(np.linalg.norm(np.array(r) - ppos[0]) for r in case["rpos"])
    tol = ABS_SLACK * (1 + lever)
    for key, g in groups.items():
        o = g["orderings"][0]
        R, t, rmsd, maxdev = geom.kabsch(ppos, o["pos"])
        for j in r_only:
            pred = R @ np.array(case["rpos"][j]) + t
            hit = None
            for k, (jj, p) in enumerate(remaining):
                if jj == j and geom.lattice_diff(cell, p, pred) <= tol:
                    hit = k
                    break
            if hit is None:
                raise Violation("misplaced-insertion", "match %r: replacement atom %d should land at %r modulo the lattice "
                                "(same frame as the matched search pattern); inserted copies of that atom are at %r" %
                                (key, j, pred.tolist(), [p.tolist() for jj, p in remaining if jj == j]))
            fr = pred @ inv
            if np.abs(np.floor(fr)).max() >= 2 or (np.floor(fr) != 0).sum() >= 2:
                nwrap += 1
            remaining.pop(hit)
    stats.count("far:cell:" + case["meta"]["cell_cls"])
    stats.count("far:wrapped-by-2+-cells-or-2+-axes:%s" % (nwrap > 0))
    stats.mark_nontrivial(case)


# ---------------------------------------------------------------------------------------------------------------------
# histories on one object: replace (inserting atoms), replicate, replace again on the replicated structure

@st.composite
def history_strategy(draw):
    case = draw(repl.replace_case(repl_kinds=["larger"], fractions=False, max_copies=2, decoys=False, max_atoms=4))
    # the first replacement keeps the whole search pattern (so that it still occurs afterwards) and adds atoms
    n = len(case["ppos"])
    extra = [(p, e) for j, (p, e) in enumerate(zip(case["rpos"], case["rels"])) if str(j) not in case["shared"]]
    case["rpos"] = [list(p) for p in case["ppos"]] + [p for p, e in extra]
    case["rels"] = list(case["pels"]) + [("F" if e in case["pels"] else e) for p, e in extra]
    case["shared"] = {str(i): i for i in range(n)}
    case["rcharges"] = [round(repl.R_TAG0 + 0.01 * j, 6) for j in range(len(case["rpos"]))]
    case["rgroups"] = [4] * len(case["rpos"])
    case["replace_all"] = False
    r = [draw(hperm.integers(1, 2)) for _ in range(3)]
    if r == [1, 1, 1]:
        r[draw(hperm.integers(0, 2))] = 2
    case["repl"] = r
    return case


def history_oracle(case, stats):
    groups, reason = repl.analyse(case)
    if reason or not groups:
        stats.count("skipped:" + (reason or "no-match"))
        return
    if not any(str(j) not in case["shared"] for j in range(len(case["rpos"]))):
        stats.count("skipped:nothing-inserted")
        return
    s = repl.build_structure(case)
    sp, rp = repl.build_search(case), repl.build_replace(case)
    try:
        new1 = mf.replace(s, sp, rp, case["atol"], case["hints"], case["seeds"])
        check_result(case, groups, new1, stats, "first replacement")
        from mv.quiet import silenced
        with silenced():
            sup = new1.replicate(tuple(case["repl"]))
    except Violation:
        raise
    except Exception as e:
        raise Violation("exception-in-history", "%s: %r" % (type(e).__name__, e))
    case2 = dict(case)
    case2["cell"] = np.asarray(sup.cell, float).tolist()
    case2["spos"] = np.asarray(sup.positions, float).tolist()
    case2["sels"] = list(sup.elements)
    case2["rcharges"] = [round(7.0 + 0.01 * j, 6) for j in range(len(case["rpos"]))]
    case2.pop("payload", None)
    # positions must be inside the new cell for the reference (replicate keeps them inside the enlarged cell)
    groups2, reason2 = repl.analyse(case2)
    if reason2 or not groups2:
        stats.count("skipped:second-step-" + (reason2 or "no-match"))
        return
    rp2 = repl.build_replace(case2)
    try:
        new2 = mf.replace(sup, sp, rp2, case["atol"], case["hints"], case["seeds"])
    except Exception as e:
        raise Violation("exception-in-history", "second replacement after replicate%r: %s: %r" % (tuple(case["repl"]), type(e).__name__, e))
    check_result(case2, groups2, new2, stats, "replacement after replace+replicate%r on the same object" % (tuple(case["repl"]),))
    stats.count("history:cell:" + case["meta"]["cell_cls"])
    stats.mark_nontrivial(case)


PARTS = [
    HypPart("insertion", lambda tier: strategy(), oracle, {"quick": 3000, "thorough": 40000}),
    HypPart("far-replacement", lambda tier: far_strategy(), far_oracle, {"quick": 1200, "thorough": 15000}),
    HypPart("replace-replicate-replace", lambda tier: history_strategy(), history_oracle, {"quick": 600, "thorough": 6000}),
]
