"""C16 — CML molecules load faithfully."""
import os
import io
import pathlib
from xml.sax.saxutils import quoteattr

import numpy as np
from hypothesis import strategies as st

from mv import hperm

from mv.quiet import silenced, workdir
from mv.runner import FuzzPart, HypPart, Violation

PROPERTY = "C16"
RULE = ("Hypothesis-generated CML documents of the Avogadro flavour (no XML namespace, like all nine .cml files in the "
        "repository): 1-30 atoms; id schemes sequential / shuffled / sparse / arbitrary XML-safe whitespace-free "
        "strings (incl. punctuation) / ids that look like another atom's position; elements from the mass table; "
        "coordinates written as repr of floats of any sign and magnitude 1e-9..1e6 incl. 0 and -0; bond lists absent, "
        "empty, partial, references in either order, orders 1/2/3/1.5; extra attributes; optional <cml> wrapper and XML "
        "declaration. Each document is written to the SAME path and loaded nine ways (str path, pathlib path, open "
        "file + filetype, load_cml(path), load_cml(text file / binary file / BytesIO / StringIO), load(StringIO)). Oracle: one atom per entry in document order with exactly "
        "the parsed coordinates and stated element, one bond per entry joining index(ref1), index(ref2), zero bonds "
        "when there are none, all five loads equal. Non-trivial = ids not in sequential order, or no bonds, or a "
        "single atom; distinct by hash of the document.")
RULE += (" Since rounds 9-10: Each document is also loaded from a file opened 'rb', io.BytesIO, io.StringIO, and twice more from one open handle after seek(0).")
ASSUMPTIONS = ["namespaced CML documents are outside the observed domain (findall('.//atom') is namespace-sensitive and no "
               "repository file uses a namespace) and are not generated"]

ID_ALPHABET = "abcdefghijklmnopqrstuvwxyzABCDEFGHIJKLMNOPQRSTUVWXYZ0123456789_.-:"


def _elements():
    from mofun.atomic_masses import ATOMIC_MASSES
    return list(ATOMIC_MASSES.keys())


@st.composite
def coord(draw):
    k = draw(st.sampled_from(["normal", "normal", "tiny", "huge", "zero", "negzero", "int"]))
    if k == "normal":
        return draw(st.floats(-50, 50))
    if k == "tiny":
        return draw(st.sampled_from([-1, 1])) * 10.0 ** draw(st.floats(-9, -3))
    if k == "huge":
        return draw(st.sampled_from([-1, 1])) * 10.0 ** draw(st.floats(2, 6))
    if k == "zero":
        return 0.0
    if k == "negzero":
        return -0.0
    return float(draw(hperm.integers(-20, 20)))


@st.composite
def document(draw):
    els_all = _elements()
    n = draw(st.one_of(st.just(1), hperm.integers(2, 8), hperm.integers(2, 30)))
    if draw(hperm.integers(0, 29)) == 0:
        n = draw(st.sampled_from([130, 260, 300]))        # now and then a document with indices beyond 127 / 255
    scheme = draw(st.sampled_from(["sequential", "shuffled", "sparse", "arbitrary", "positional-trap", "zero-based", "long-prefix", "case-variants"]))
    if scheme == "sequential":
        ids = ["a%d" % (i + 1) for i in range(n)]
    elif scheme == "zero-based":
        ids = ["a%d" % i for i in range(n)]
    elif scheme == "shuffled":
        ids = ["a%d" % (i + 1) for i in draw(hperm.permutations(range(n)))]
    elif scheme == "sparse":
        ids = ["a%d" % k for k in draw(st.lists(hperm.integers(1, 999), min_size=n, max_size=n, unique=True))]
    elif scheme == "positional-trap":
        # ids that are valid positions of *other* atoms: a2 a1 a4 a3 ..., reversed, rotated
        base = ["a%d" % (i + 1) for i in range(n)]
        k = draw(hperm.integers(1, max(1, n - 1)))
        ids = base[k:] + base[:k] if draw(st.booleans()) else list(reversed(base))
    elif scheme == "long-prefix":
        # descriptive ids sharing a long common prefix (carboxylate_C, carboxylate_O1, ...)
        pre = draw(st.sampled_from(["carboxylate_", "linker-ring.atom", "node_Zr6_O", "a" * 9, "molecule1:residue2:"]))
        ids = ["%s%s" % (pre, k) for k in draw(st.lists(hperm.integers(0, 99999), min_size=n, max_size=n, unique=True))]
    elif scheme == "case-variants":
        # PDB-style names that differ only in letter case (CA alpha carbon vs Ca calcium)
        pool = ["CA", "Ca", "cA", "ca", "HO", "Ho", "hO", "ho", "CO", "Co", "cO", "co", "NA", "Na", "nA", "na", "OD1", "Od1", "oD1", "od1"]
        ids = list(draw(hperm.permutations(pool)))[:n] if n <= len(pool) else ["%s%d" % (pool[i % len(pool)], i // len(pool)) for i in range(n)]
    else:
        ids = draw(st.lists(st.text(alphabet=ID_ALPHABET, min_size=1, max_size=14), min_size=n, max_size=n, unique=True))
    atoms = []
    for i in range(n):
        atoms.append({"id": ids[i], "el": draw(st.sampled_from(["C", "H", "O", "N", "Zr"] + els_all)),
                      "xyz": [draw(coord()), draw(coord()), draw(coord())]})
    bk = draw(st.sampled_from(["none-absent", "none-empty", "some", "some", "many"])) if n > 1 else \
        draw(st.sampled_from(["none-absent", "none-empty"]))
    bonds = []
    if bk in ("some", "many"):
        nb = draw(hperm.integers(1, 3 if bk == "some" else min(40, n * (n - 1) // 2)))
        for _ in range(nb):
            i = draw(hperm.integers(0, n - 1))
            j = draw(hperm.integers(0, n - 1).filter(lambda x: x != i))
            bonds.append({"refs": [ids[i], ids[j]], "order": draw(st.sampled_from(["1", "2", "3", "1.5", "1.0"]))})
    return {"atoms": atoms, "bonds": bonds, "bond_kind": bk, "scheme": scheme,
            "wrapper": draw(st.booleans()), "decl": draw(st.booleans()), "extras": draw(st.booleans()),
            "sep": draw(st.sampled_from([" ", "  ", "\t"]))}


def to_xml(doc):
    out = []
    if doc["decl"]:
        out.append('<?xml version="1.0" encoding="UTF-8"?>')
    if doc["wrapper"]:
        out.append("<cml>")
    out.append('<molecule%s>' % (' id="m1"' if doc["extras"] else ""))
    out.append(" <atomArray>")
    for k, a in enumerate(doc["atoms"]):
        extra = ' formalCharge="0" spinMultiplicity="1"' if doc["extras"] and k % 2 == 0 else ""
        out.append('  <atom id=%s elementType=%s%s x3="%r" y3="%r" z3="%r"/>' %
                   (quoteattr(a["id"]), quoteattr(a["el"]), extra, a["xyz"][0], a["xyz"][1], a["xyz"][2]))
    out.append(" </atomArray>")
    if doc["bond_kind"] != "none-absent":
        out.append(" <bondArray>")
        for b in doc["bonds"]:
            out.append('  <bond atomRefs2=%s order="%s"/>' % (quoteattr(doc["sep"].join(b["refs"])), b["order"]))
        out.append(" </bondArray>")
    out.append("</molecule>")
    if doc["wrapper"]:
        out.append("</cml>")
    return "\n".join(out) + "\n"


def summarize(a):
    return (list(a.elements), np.asarray(a.positions, float).tolist(),
            [tuple(int(x) for x in b) for b in np.asarray(a.bonds).reshape(-1, 2)] if len(a.bonds) else [])


def oracle(doc, stats):
    from mofun import Atoms
    text = to_xml(doc)
    path = os.path.join(workdir(), "doc.cml")          # the same path for every document (stale caches show up)
    with open(path, "w") as f:
        f.write(text)
    loads = {}
    try:
        with silenced():
            loads["Atoms.load(str path)"] = Atoms.load(path)
            loads["Atoms.load(pathlib path)"] = Atoms.load(pathlib.Path(path))
            with open(path) as fh:
                loads["Atoms.load(open file, filetype='cml')"] = Atoms.load(fh, filetype="cml")
            loads["Atoms.load_cml(path)"] = Atoms.load_cml(path)
            with open(path) as fh:
                loads["Atoms.load_cml(open file)"] = Atoms.load_cml(fh)
            # the caller's handle stays the caller's: rewound, it can be read again (by either entry point)
            with open(path) as fh:
                Atoms.load(fh, filetype="cml")
                fh.seek(0)
                loads["Atoms.load(same open file again, rewound)"] = Atoms.load(fh, filetype="cml")
                fh.seek(0)
                loads["Atoms.load_cml(same open file again, rewound)"] = Atoms.load_cml(fh)
            # load_cml documents "Path or File-like object": XML is as often opened in binary mode or held in memory
            with open(path, "rb") as fh:
                loads["Atoms.load_cml(file opened 'rb')"] = Atoms.load_cml(fh)
            with open(path, "rb") as fh:
                data = fh.read()
            loads["Atoms.load_cml(io.BytesIO)"] = Atoms.load_cml(io.BytesIO(data))
            loads["Atoms.load_cml(io.StringIO)"] = Atoms.load_cml(io.StringIO(data.decode("utf-8")))
            loads["Atoms.load(io.StringIO, filetype='cml')"] = Atoms.load(io.StringIO(data.decode("utf-8")), filetype="cml")
    except Exception as e:
        import traceback
        tb = traceback.extract_tb(e.__traceback__)
        raise Violation("exception-in-load", "%s: %r at %s (%d atoms, %d bonds, bondArray %s)" %
                        (type(e).__name__, e, tb[-1].name if tb else "?", len(doc["atoms"]), len(doc["bonds"]), doc["bond_kind"]))
    ids = [a["id"] for a in doc["atoms"]]
    want_els = [a["el"] for a in doc["atoms"]]
    want_pos = [[float(repr(c)) for c in a["xyz"]] for a in doc["atoms"]]
    want_bonds = sorted(tuple(sorted((ids.index(b["refs"][0]), ids.index(b["refs"][1])))) for b in doc["bonds"])
    first = None
    for how, a in loads.items():
        els, pos, bonds = summarize(a)
        if len(els) != len(ids):
            raise Violation("atom-count", "%s: %d atoms loaded for %d atom entries" % (how, len(els), len(ids)))
        if els != want_els:
            raise Violation("elements", "%s: elements %r, document says %r" % (how, els, want_els))
        if pos != want_pos:
            bad = [(i, p, w) for i, (p, w) in enumerate(zip(pos, want_pos)) if p != w][0]
            raise Violation("coordinates", "%s: atom %d loaded at %r, document says %r" % (how, bad[0], bad[1], bad[2]))
        if sorted(tuple(sorted(b)) for b in bonds) != want_bonds:
            raise Violation("bonds", "%s: bonds %r, document (ids %r) says %r" % (how, bonds, ids, want_bonds))
        if any(x == y for x, y in bonds):
            raise Violation("bonds", "%s: self-bond %r" % (how, bonds))
        if first is None:
            first = (how, els, pos, bonds)
        elif (els, pos, bonds) != first[1:]:
            raise Violation("path-vs-file", "%s and %s give different results" % (first[0], how))
    # a loaded object is the caller's: overwriting it in place must not influence a later load of the same file
    from mv import mf
    mf.scribble(loads["Atoms.load(str path)"])
    mf.scribble(loads["Atoms.load_cml(path)"])
    try:
        with silenced():
            again = Atoms.load(path)
    except Exception as e:
        raise Violation("exception-in-load", "second load of the same path: %s: %r" % (type(e).__name__, e))
    if summarize(again)[:2] != (want_els, want_pos) or sorted(tuple(sorted(b)) for b in summarize(again)[2]) != want_bonds:
        raise Violation("second-load-differs", "loading the same path again after modifying the first result in place gives %r" % (summarize(again),))
    stats.count("ids:" + doc["scheme"])
    stats.count("bonds:" + doc["bond_kind"])
    stats.count("atoms:%s" % ("1" if len(ids) == 1 else "2-8" if len(ids) <= 8 else "9-30" if len(ids) <= 30 else "128+"))
    seq = ids == ["a%d" % (i + 1) for i in range(len(ids))]
    if not seq or not doc["bonds"] or len(ids) == 1:
        stats.mark_nontrivial(doc)


PARTS = [
    HypPart("documents", lambda tier: document(), oracle, {"quick": 4000, "thorough": 60000}),
    FuzzPart("coverage-guided-documents", "documents", runs=5000),
]
