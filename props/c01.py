"""C01 — every reported match is a genuine rigid-motion image of the pattern."""
import numpy as np
from hypothesis import strategies as st

from mv import hperm

from mv import gen_geom, geom, mf, ref_match
from mv.runner import HypPart, Violation

PROPERTY = "C01"
RULE = ("Hypothesis-generated periodic structures (orthorhombic / tilted cells with every perpendicular width > pattern "
        "diameter + 2*atol, tight factors 1.02..3) with 1-4 planted copies of a 1-6 atom pattern (generic, symmetric, "
        "planar, collinear, near-collinear, chiral, single) in random / axis-aligned / antiparallel / near-(anti)parallel "
        "poses, anchors near faces/edges/corners, per-atom noise <= atol/32, decoys (near-miss, mirror image, changed "
        "element, loose atoms), hints of every valid form, both RNG seeds; tolerances 0.002-0.3 and, in part tiny-tolerance, "
        "0 / 1e-6 / 1e-4 with near misses 0.016-0.048 A off (inside the default tolerance). Oracle = validity predicate on each returned "
        "match. Non-trivial = at least one match returned and (pattern has >= 3 atoms or a copy crosses a boundary or "
        "a decoy is present); distinct by hash of the whole case.")
ASSUMPTIONS = ["'within the requested tolerance' is enforced exactly only component-wise for the returned rotation "
               "(atol + 1e-5|x|, mofun's own documented closeness); the image reconstruction only rejects clear-out "
               "candidates (pair distance off by > 2*sqrt(3)*atol or proper-Kabsch RMSD > sqrt(3)*atol)"]


def check_matches(case, idx, pos, rots, groups, stats):
    cell = np.array(case["cell"])
    spos = np.array(case["spos"])
    ppos = np.array(case["ppos"])
    sels, pels, atol = case["sels"], case["pels"], case["atol"]
    n, N = len(ppos), len(spos)
    for mi, m in enumerate(idx):
        m = [int(x) for x in m]
        if len(m) != n:
            raise Violation("match-length", "match %r has %d entries for a %d-atom pattern" % (m, len(m), n))
        if any(x < 0 or x >= N for x in m):
            raise Violation("index-range", "match %r outside [0,%d)" % (m, N))
        if len(set(m)) != n:
            raise Violation("repeated-atom", "match %r lists an atom twice" % (m,))
        if [sels[x] for x in m] != list(pels):
            raise Violation("element-mismatch", "match %r has elements %r, pattern %r" % (m, [sels[x] for x in m], pels))
        key = tuple(sorted(m))
        g = groups.get(key)
        feas = [o for o in g["orderings"] if o["idx"] == m] if g else []
        if not feas:
            raise Violation("not-an-image", "match %r (pattern order) is clearly outside the tolerance for every choice of "
                            "periodic images: no proper rotation+translation brings the pattern onto these atoms (mirror "
                            "image, wrong atoms or wrong order)" % (m,))
        if pos is not None:
            Y = np.array(pos[mi], float)
            if Y.shape != (n, 3):
                raise Violation("positions-shape", "positions of match %d have shape %r" % (mi, Y.shape))
            for k in range(n):
                if not geom.is_lattice_vector(cell, Y[k] - spos[m[k]], 1e-7):
                    raise Violation("position-not-image", "returned position %r of atom %d is not its stored position %r "
                                    "plus a lattice vector" % (Y[k].tolist(), m[k], spos[m[k]].tolist()))
            cls, maxdev, rmsd = ref_match.classify(ppos, Y, atol)
            if cls == "out":
                raise Violation("returned-positions-not-an-image", "returned positions of match %r are clearly not a "
                                "rigid image of the pattern (rmsd %.4g, atol %.3g)" % (m, rmsd, atol))
            R = rots[mi].as_matrix()
            if abs(np.linalg.det(R) - 1.0) > 1e-9 or np.abs(R @ R.T - np.eye(3)).max() > 1e-9:
                raise Violation("improper-rotation", "det=%r" % np.linalg.det(R))
            t, res = geom.minimax_translation_residual(ppos, Y, R)
            lim = atol + 1e-5 * float(np.abs(Y).max()) + 1e-9
            if res.max() > lim:
                raise Violation("returned-rotation-does-not-fit", "match %r: with the returned rotation and the best "
                                "translation the worst component residual is %.5g > %.5g" % (m, res.max(), lim))


def oracle(case, stats):
    atol, hints, seeds = case["atol"], case["hints"], case["seeds"]
    try:
        groups = ref_match.find_all(case["cell"], case["spos"], case["sels"], case["ppos"], case["pels"], atol,
                                    in_thr=ref_match.in_threshold(case["ppos"], hints, atol))
    except ref_match.TooAmbiguous:
        stats.count("skipped:reference-budget")
        return
    s = mf.atoms_from(case["spos"], case["sels"], case["cell"])
    # a pattern may carry a cell of its own (cut out with structure[indices], loaded from a LAMMPS or CIF file)
    p = mf.atoms_from(case["ppos"], case["pels"], case["cell"] if case.get("pattern_cell") else None)
    stats.count("pattern-carries-cell:%s" % bool(case.get("pattern_cell")))
    if case.get("prime") is not None:
        # an earlier search, in the same process, of the same crystal described in another frame (whole crystal turned by
        # an axis-aligned rotation: same cell lengths and angles, another cell matrix) - nothing of it may leak into the
        # search that is checked
        R = geom.axis_rotations()[case["prime"]]
        s0 = mf.atoms_from((np.array(case["spos"]) @ R.T).tolist(), case["sels"], (np.array(case["cell"]) @ R.T).tolist())
        mf.find(s0, p, atol, hints, seeds, positions=True, what="priming-search")
        stats.count("primed-by-rotated-crystal")
    form = case.get("call", "keyword")
    idx, pos, rots = mf.find(s, p, atol, hints, seeds, positions=True, form=form)
    idx2 = mf.find(s, p, atol, hints, seeds, positions=False, form=form)
    stats.count("call:" + form)
    if [tuple(int(x) for x in m) for m in idx] != [tuple(int(x) for x in m) for m in idx2]:
        raise Violation("forms-disagree", "index lists differ between the two return forms with identical RNG state: "
                        "%r vs %r" % (idx, idx2))
    if len(idx) != len(pos) or len(idx) != len(rots):
        raise Violation("lengths", "%d matches, %d position sets, %d rotations" % (len(idx), len(pos), len(rots)))
    check_matches(case, idx, pos, rots, groups, stats)
    classify_case(case, len(idx), stats)


def classify_case(case, nmatches, stats, nt=None):
    meta = case.get("meta", {})
    copies = meta.get("copies", [])
    stats.count("cell:" + meta.get("cell_cls", "?"))
    stats.count("tilt:" + meta.get("tilt_signs", "?"))
    stats.count("pattern:" + meta.get("pattern_cls", "?"))
    stats.count("hints:" + meta.get("hint_form", "?"))
    for c in copies:
        stats.count("crossings:%d" % c["crossings"])
        stats.count("pose:" + c["pose"])
    for d in meta.get("decoys", []):
        stats.count("decoy:" + d)
    stats.count("matches:%s" % (nmatches if nmatches < 5 else "5+"))
    if nt is None:
        nt = nmatches >= 1 and (len(case["ppos"]) >= 3 or any(c["crossings"] > 0 for c in copies) or meta.get("decoys"))
    if nt:
        stats.mark_nontrivial(case)


@st.composite
def primed_case(draw):
    """a planted case, one time in four preceded by a search of the same crystal in a turned frame"""
    case = draw(gen_geom.planted())
    case["call"] = draw(st.sampled_from(["keyword", "keyword", "keyword", "positional"]))
    case["pattern_cell"] = draw(hperm.integers(0, 3)) == 0
    case["prime"] = draw(st.one_of(st.none(), st.none(), st.none(), st.sampled_from([1, 2, 3, 5, 8, 13, 17, 22])))
    return case


@st.composite
def tiny_tolerance_case(draw):
    """tolerance 0 or far below the default: exact copies (pure lattice / rigid images) next to near misses that are
    0.016-0.048 A off, i.e. inside the *default* tolerance - a requested tolerance that does not reach the comparison
    shows as a reported near miss"""
    case = draw(gen_geom.planted(atols=[0.0, 0.0, 1e-6, 1e-4], noise_levels=(0.0,), max_copies=3,
                                 decoy_kinds=["near-miss", "near-miss", "out-of-plane", "mirror"]))
    case["call"] = draw(st.sampled_from(["keyword", "positional"]))
    case["pattern_cell"] = False
    case["prime"] = None
    return case


@st.composite
def edit_case(draw):
    """a planted case plus in-place edits of the structure object between two searches (histories on one object)"""
    case = draw(gen_geom.planted(max_copies=3))
    N = len(case["spos"])
    types = list(dict.fromkeys(case["sels"]))
    edits = []
    for _ in range(draw(hperm.integers(1, 3))):
        kind = draw(st.sampled_from(["retype", "retype", "swap-positions"]))
        if kind == "retype":
            edits.append(["retype", draw(hperm.integers(0, N - 1)), draw(hperm.integers(0, len(types) - 1))])
        else:
            edits.append(["swap-positions", draw(hperm.integers(0, N - 1)), draw(hperm.integers(0, N - 1))])
    case["edits"] = edits
    return case


def apply_edits(case, s):
    """edits the mofun object in place (the idiom mofun itself uses in Atoms.extend) and returns the edited case"""
    case2 = dict(case)
    sels, spos = list(case["sels"]), [list(p) for p in case["spos"]]
    types = list(dict.fromkeys(case["sels"]))
    for e in case["edits"]:
        if e[0] == "retype":
            s.atom_types[e[1]] = e[2]
            sels[e[1]] = types[e[2]]
        else:
            i, j = e[1], e[2]
            tmp = s.positions[i].copy()
            s.positions[i] = s.positions[j]
            s.positions[j] = tmp
            spos[i], spos[j] = spos[j], spos[i]
    case2["sels"], case2["spos"] = sels, spos
    return case2


def edit_oracle(case, stats, completeness=False):
    atol, hints, seeds = case["atol"], case["hints"], case["seeds"]
    s = mf.atoms_from(case["spos"], case["sels"], case["cell"])
    p = mf.atoms_from(case["ppos"], case["pels"])
    mf.find(s, p, atol, hints, seeds, positions=True)             # first search on the fresh object
    case2 = apply_edits(case, s)
    try:
        groups = ref_match.find_all(case2["cell"], case2["spos"], case2["sels"], case2["ppos"], case2["pels"], atol,
                                    in_thr=ref_match.in_threshold(case2["ppos"], hints, atol))
    except ref_match.TooAmbiguous:
        stats.count("skipped:reference-budget")
        return
    idx, pos, rots = mf.find(s, p, atol, hints, seeds, positions=True, what="search-after-in-place-edit")
    if completeness:
        from props.c02 import compare
        compare(case2, idx, groups, stats)
    else:
        check_matches(case2, idx, pos, rots, groups, stats)
    stats.count("edits:%d" % len(case["edits"]))
    for e in case["edits"]:
        stats.count("edit:" + e[0])
    if len(idx) >= 1 or groups:
        stats.mark_nontrivial(case)


KNOWN_SIGS = {}

PARTS = [
    HypPart("planted", lambda tier: primed_case(), oracle, {"quick": 8000, "thorough": 80000}),
    HypPart("edit-then-search", lambda tier: edit_case(), edit_oracle, {"quick": 1500, "thorough": 15000}),
    HypPart("tiny-tolerance", lambda tier: tiny_tolerance_case(), oracle, {"quick": 1500, "thorough": 15000}),
]
