"""C11 — extending a structure appends atoms and re-targets terms correctly."""
import copy
import itertools

import numpy as np
from hypothesis import strategies as st

from mv import hperm

from mv import gen_atoms, model_atoms as M
from mv.quiet import silenced
from mv.runner import EnumPart, FuzzPart, HypPart, Violation

PROPERTY = "C11"
RULE = ("Exhaustive: self from a fixed family of 0..3-atom structures (the 0-atom one is a structure emptied by deletion; "
        "chains, rings, stars, torsion-only, all term kinds, tables, extra columns) x other from a family of 1..3-atom "
        "fragments x every partial injective identity map other->self x modes {default type merging, explicit offsets "
        "from extend_types, repeated extension with the same fragment and offsets, ids supplied as already shared "
        "(offsets 0)}; existing terms coinciding forwards / backwards / in another order with mapped new terms. "
        "Hypothesis: random compatible pairs up to 8+6 atoms with random maps and differing extra-column label sets in "
        "differing order. Oracle = resolved-term model from the statement (appended atoms in order; mapped atoms adopt "
        "the other's label/element/mass/pair text and extra fields; every term of other present once between the "
        "corresponding atoms resolving to other's own coefficient text; same-atoms terms superseded forwards/backwards "
        "only; everything else untouched; extra columns merged by label with '.'). Non-trivial = other has >= 1 term "
        "and (map non-empty or self has terms of that kind); distinct by hash.")
RULE += (" Since rounds 9-10: After every case a third fragment with other extra-column labels is added and then the first fragment again: the first fragment must equal its snapshot throughout and be addable again.")
ASSUMPTIONS = ["pairs are generated compatible per term kind (both with tables, neither, or one side without terms of that "
               "kind) and for pair coefficients (both or neither)",
               "for kinds where neither side has a table only the type partition is compared (ids disjoint from self's)"]

MODES = ["default", "explicit-offsets", "repeated", "shared-ids", "repeated-same-map"]


def other_from(spec, tag_base, suffix):
    o = copy.deepcopy(spec)
    o["type_labels"] = [l + suffix for l in o["type_labels"]]
    o["type_masses"] = [m + 0.01 for m in o["type_masses"]]
    o["pair_coeffs"] = [c.replace("lj", "lj" + suffix) for c in o["pair_coeffs"]]
    o["charges"] = [round((tag_base + abs(c)) * (1 if c > 0 else -1), 6) for c in o["charges"]]
    o["pos"] = [[x + 3.3, y + 1.1, z + 2.2] for x, y, z in o["pos"]]
    for k in M.KINDS:
        o[k + "_coeffs"] = [c + suffix for c in o[k + "_coeffs"]]
        if o["extra_%s_labels" % k]:
            o["extra_%s_labels" % k] = ["_y_%s" % k] + o["extra_%s_labels" % k]
            o["extra_%s_fields" % k] = [["y%d" % i] + r for i, r in enumerate(o["extra_%s_fields" % k])]
    o["extra_atom_labels"] = ["_atom_site_other"] + o["extra_atom_labels"] if o["extra_atom_labels"] else []
    o["extra_atom_fields"] = [["q%d" % i] + r for i, r in enumerate(o["extra_atom_fields"])] if o["extra_atom_labels"] else []
    return o


def enum_cases(tier, seed):
    from props.c10 import family
    fam = family(3 if tier == "quick" else 4)
    selfs = [(shape, spec) for shape, spec in fam]
    others = [(shape, other_from(spec, 1.0, "_o")) for shape, spec in fam if len(spec["pos"]) <= 3]
    cases = []
    # a self emptied by deletion: the 2-atom chain with all atoms deleted
    empt = [s for sh, s in fam if sh == "chain" and len(s["pos"]) == 2][0]
    selfs = selfs + [("emptied", dict(copy.deepcopy(empt), _delete_all=True))]
    for (ss, s), (os_, o) in itertools.product(selfs, others):
        ns = 0 if s.get("_delete_all") else len(s["pos"])
        no = len(o["pos"])
        maps = []
        for k in range(0, min(ns, no) + 1):
            for keys in itertools.combinations(range(no), k):
                for vals in itertools.permutations(range(ns), k):
                    maps.append({str(a): b for a, b in zip(keys, vals)})
        for mi, mp in enumerate(maps):
            # rotate through the modes so that every (pair, map) gets at least one and every mode is spread evenly
            for mode in (MODES if (len(maps) <= 4 or tier == "thorough") else [MODES[mi % 5], MODES[(mi + 2) % 5]]):
                cases.append({"self": s, "other": o, "map": mp, "mode": mode, "shapes": [ss, os_]})
    return cases


def compatible(s, o):
    for k in M.KINDS:
        st_, ot = bool(s[k + "s"]), bool(o[k + "s"])
        sc, oc = bool(s[k + "_coeffs"]), bool(o[k + "_coeffs"])
        if st_ and ot and sc != oc:
            return False
        # one side has terms, the other only a table: fine.  one side has terms without table, other has a table but no
        # terms: the result would have a table not covering the untyped ids - not a consistent combination
        if (st_ and not sc and oc) or (ot and not oc and sc):
            return False
    if bool(s["pair_coeffs"]) != bool(o["pair_coeffs"]) and s["pos"] and o["pos"]:
        return False
    return True


def resolve_other_via_self(s, o):
    """for 'shared ids': other's atoms and terms resolved through self's tables"""
    m = M.model_from_spec(o)
    for j, a in enumerate(m["atoms"]):
        t = o["atom_types"][j]
        a["label"], a["el"], a["mass"] = s["type_labels"][t], s["type_elements"][t], float(s["type_masses"][t])
        a["pair"] = M.norm_coeff(s["pair_coeffs"][t]) if s["pair_coeffs"] else None
    for k in M.KINDS:
        for n, t in enumerate(m["terms"][k]):
            tid = o[k + "_types"][n]
            t["coeff"] = M.norm_coeff(s[k + "_coeffs"][tid]) if s[k + "_coeffs"] else ("untyped", int(tid))
    return m


def tag_untyped(m, who):
    for k in M.KINDS:
        for t in m["terms"][k]:
            if isinstance(t["coeff"], tuple) and t["coeff"][0] == "untyped":
                t["coeff"] = ("untyped", (who, t["coeff"][1]))
    return m


def oracle(case, stats):
    s, o, mode = case["self"], case["other"], case["mode"]
    mp = {int(k): int(v) for k, v in case["map"].items()}
    if not compatible(s, o):
        stats.count("skipped:incompatible-pair")
        return
    if mode == "shared-ids":
        # other must be expressible in self's ids
        ok = all(t < len(s["type_labels"]) for t in o["atom_types"]) and \
            all((not s[k + "_coeffs"]) or all(t < len(s[k + "_coeffs"]) for t in o[k + "_types"]) for k in M.KINDS) and \
            all(bool(s[k + "_coeffs"]) or not o[k + "_coeffs"] or not o[k + "s"] for k in M.KINDS)
        if not ok:
            stats.count("skipped:ids-not-shared")
            return
    if mode == "edited-then-again" and any(o[k + "s"] and not o[k + "_coeffs"] for k in M.KINDS):
        # terms without coefficient tables carry opaque type ids; how a second merge numbers them is not part of the property
        stats.count("skipped:untyped-terms-in-edited-mode")
        return
    try:
        a = M.build(s)
        b = M.build(o)
        if s.get("_delete_all"):
            with silenced():
                del a[list(range(len(s["pos"])))]
    except Exception as e:
        raise Violation("exception-in-construction", "%s: %r" % (type(e).__name__, e))
    ms = M.model_from_spec(s)
    if s.get("_delete_all"):
        ms = M.m_delete(ms, list(range(len(s["pos"]))))
    mo = M.model_from_spec(o)
    from mv import mf
    snap_b = mf.snapshot(b)
    what = "extend(%s, map=%r)" % (mode, mp)
    try:
        with silenced():
            if mode == "default":
                a.extend(b, structure_index_map=dict(mp))
            elif mode == "explicit-offsets":
                offs = a.extend_types(b)
                a.extend(b, offsets=offs, structure_index_map=dict(mp))
            elif mode == "repeated":
                offs = a.extend_types(b)
                a.extend(b, offsets=offs, structure_index_map=dict(mp))
                b2 = M.build(shifted_copy(o))
                a.extend(b2, offsets=offs)
            elif mode == "edited-then-again":
                # default type merging twice with the SAME fragment object, whose tables the caller edits in between
                a.extend(b, structure_index_map=dict(mp))
                o2 = edited_copy(o)
                b.atom_type_labels = list(o2["type_labels"])
                b.pair_coeffs = list(o2["pair_coeffs"])
                for k in M.KINDS:
                    setattr(b, M.COEFF_ATTR[k], list(o2[k + "_coeffs"]))
                b.positions = np.array(o2["pos"], float).reshape(-1, 3)
                b.charges = np.array(o2["charges"], float)
                snap_b = mf.snapshot(b)
                a.extend(b)
            elif mode == "repeated-same-map":
                # the caller keeps one map object and passes it to both extensions
                offs = a.extend_types(b)
                the_map = dict(mp)
                a.extend(b, offsets=offs, structure_index_map=the_map)
                b2 = M.build(shifted_copy(o))
                a.extend(b2, offsets=offs, structure_index_map=the_map)
            else:
                a.extend(b, offsets=(0, 0, 0, 0, 0), structure_index_map=dict(mp))
    except Exception as e:
        import traceback
        tb = traceback.extract_tb(e.__traceback__)
        raise Violation("exception-in-extend", "%s: %s: %r at %s" % (what, type(e).__name__, e, tb[-1].name if tb else "?"))
    if mf.snapshot(b) != snap_b:
        raise Violation("other-modified", "%s modified the structure that was added" % what)
    if mode == "shared-ids":
        mo_eff = resolve_other_via_self(s, o)
        want = M.m_extend(ms, mo_eff, mp)
    else:
        want = M.m_extend(tag_untyped(copy.deepcopy(ms), "self"), tag_untyped(copy.deepcopy(mo), "other"), mp)
        if mode == "repeated":
            mo2 = tag_untyped(M.model_from_spec(shifted_copy(o)), "other")
            want = M.m_extend(want, mo2, {})
        if mode == "repeated-same-map":
            mo2 = tag_untyped(M.model_from_spec(shifted_copy(o)), "other")
            want = M.m_extend(want, mo2, mp)
        if mode == "edited-then-again":
            # terms without coefficient tables carry opaque ids: the second merge may number them afresh
            mo2 = tag_untyped(M.model_from_spec(edited_copy(o)), "other-again")
            want = M.m_extend(want, mo2, {})
    kind_labels = {k: (s["extra_%s_labels" % k], o["extra_%s_labels" % k]) for k in M.KINDS}
    want = M.merge_extra(want, s["extra_atom_labels"], o["extra_atom_labels"], len(ms["atoms"]), list(mp.values()), kind_labels)
    got = M.resolve(a, what)
    M.compare_atoms(got["atoms"], want["atoms"], what, pos_tol=0.0, ordered=True)
    M.compare_terms(got["terms"], want["terms"], what, untyped_by_class=(mode != "shared-ids"))
    # merged label lists
    for name, sl, ol in [("atom", s["extra_atom_labels"], o["extra_atom_labels"])] + [(k, kind_labels[k][0], kind_labels[k][1]) for k in M.KINDS]:
        merged = list(dict.fromkeys(list(sl) + list(ol)))
        if sorted(getattr(a, "extra_%s_labels" % name)) != sorted(merged):
            raise Violation("extra-labels", "%s: extra %s labels %r, expected the union %r" % (what, name, list(getattr(a, "extra_%s_labels" % name)), merged))
    if mode != "shared-ids" and len(o["pos"]) >= 1:
        # afterwards, on the same objects: a third fragment with other extra-column labels is added, then the first fragment
        # once more.  The first fragment must not change when the structure it was added to grows further, and adding it
        # again appends its atoms again (full comparison of this longer history is left to C09's state machine)
        o3 = shifted_copy(shifted_copy(o))
        o3["extra_atom_labels"] = [l + "_3" for l in o["extra_atom_labels"]] + ["_atom_site_third"]
        rows = o["extra_atom_fields"] if o["extra_atom_labels"] else [[] for _ in o["pos"]]
        o3["extra_atom_fields"] = [list(r) + ["q%d" % i] for i, r in enumerate(rows)]
        for k in M.KINDS:
            if o["extra_%s_labels" % k]:
                o3["extra_%s_labels" % k] = [l + "_3" for l in o["extra_%s_labels" % k]]
        try:
            c = M.build(o3)
        except Exception as e:
            raise Violation("exception-in-construction", "third fragment: %s: %r" % (type(e).__name__, e))
        snap_b = mf.snapshot(b)
        n0 = len(a.positions)
        try:
            with silenced():
                a.extend(c)
        except Exception as e:
            raise Violation("exception-in-extend", "%s, then a third fragment with other extra columns: %s: %r" % (what, type(e).__name__, e))
        if mf.snapshot(b) != snap_b:
            now = mf.snapshot(b)
            bad = [k for k in snap_b if snap_b[k] != now.get(k)]
            raise Violation("other-modified-later", "%s: the fragment added first changed (%s) when a third fragment was added to "
                            "the same structure" % (what, ", ".join(bad)))
        try:
            with silenced():
                a.extend(b)
        except Exception as e:
            raise Violation("exception-in-extend", "%s, a third fragment, then the first fragment again: %s: %r" % (what, type(e).__name__, e))
        if len(a.positions) != n0 + 2 * len(o["pos"]):
            raise Violation("atom-count", "%s, third fragment, first fragment again: %d atoms, expected %d" % (what, len(a.positions), n0 + 2 * len(o["pos"])))
        if mf.snapshot(b) != snap_b:
            raise Violation("other-modified", "%s: adding the first fragment again modified it" % what)
        stats.count("then-third-fragment-then-first-again")
    stats.count("mode:" + mode)
    stats.count("map-size:%d" % len(mp))
    stats.count("self-atoms:%s" % ("0" if not ms["atoms"] else "1+"))
    nterms_o = sum(len(mo["terms"][k]) for k in M.KINDS)
    lost = sum(len(ms["terms"][k]) for k in M.KINDS) + nterms_o * (2 if mode.startswith("repeated") or mode == "edited-then-again" else 1) - sum(len(want["terms"][k]) for k in M.KINDS)
    stats.count("superseded-terms:%s" % (lost > 0))
    if nterms_o >= 1 and (mp or any(ms["terms"][k] and mo["terms"][k] for k in M.KINDS)):
        stats.mark_nontrivial([case.get("shapes"), case["map"], mode, s["charges"], o["charges"], [len(s[k + "s"]) for k in M.KINDS],
                               [len(o[k + "s"]) for k in M.KINDS], s.get("_delete_all", False), s["type_labels"], o["type_labels"],
                               [s[k + "s"] for k in M.KINDS], [o[k + "s"] for k in M.KINDS]])


def edited_copy(o):
    """the fragment after its owner changed its type tables: other labels, other coefficient text (and other positions /
    charge tags, so that the second batch of atoms is distinguishable)"""
    o2 = shifted_copy(o)
    o2["type_labels"] = [l + "_e" for l in o["type_labels"]]
    o2["pair_coeffs"] = [c + " e2" for c in o["pair_coeffs"]]
    for k in M.KINDS:
        o2[k + "_coeffs"] = [c.split("#")[0].rstrip() + " e2" for c in o[k + "_coeffs"]]
    return o2


def shifted_copy(o):
    o2 = copy.deepcopy(o)
    o2["charges"] = [round(c + (7.0 if c > 0 else -7.0), 6) for c in o["charges"]]
    o2["pos"] = [[x + 0.5, y + 0.25, z + 0.125] for x, y, z in o["pos"]]
    return o2


@st.composite
def random_case(draw):
    large = draw(hperm.integers(0, 3)) == 0      # fragments of 9-16 atoms most of which are declared identical
    s = draw(gen_atoms.typed_structure(min_atoms=10 if large else 1, max_atoms=24 if large else 8, max_terms=5))
    # make other compatible per kind by construction
    modes = {}
    for k in M.KINDS:
        st_, sc = bool(s[k + "s"]), bool(s[k + "_coeffs"])
        if st_ and sc:
            modes[k] = ["none", "table", "table", "table-no-terms"]
        elif st_ and not sc:
            modes[k] = ["none", "untyped", "untyped"]
        elif sc:
            modes[k] = ["none", "table", "table", "table-no-terms"]
        else:
            modes[k] = ["none", "untyped", "table", "table-no-terms"]
    o = draw(gen_atoms.typed_structure(min_atoms=9 if large else 1, max_atoms=16 if large else 6, max_terms=4, tag_base=1.0, pair=bool(s["pair_coeffs"]),
                                       label_prefix="o", cell="none"))
    # redraw per-kind content until compatible is too rejection-heavy; instead patch other's tables
    for k in M.KINDS:
        if o[k + "s"] and s[k + "s"] and bool(o[k + "_coeffs"]) != bool(s[k + "_coeffs"]):
            if s[k + "_coeffs"]:
                nt = max(o[k + "_types"]) + 1
                o[k + "_coeffs"] = ["%s_o%d 1.0" % (k, r) for r in range(nt)]
            else:
                o[k + "_coeffs"] = []
        if (s[k + "s"] and not s[k + "_coeffs"] and o[k + "_coeffs"] and not o[k + "s"]):
            o[k + "_coeffs"] = []
        if (o[k + "s"] and not o[k + "_coeffs"] and s[k + "_coeffs"]):
            nt = max(o[k + "_types"]) + 1
            o[k + "_coeffs"] = ["%s_o%d 2.0" % (k, r) for r in range(nt)]
    # differing extra-column label sets in differing order
    if s["extra_atom_labels"] and o["extra_atom_labels"] and draw(st.booleans()):
        o["extra_atom_labels"] = list(reversed(gen_atoms.XLABELS["atom"][:len(o["extra_atom_labels"]) + 1]))[:len(o["extra_atom_labels"])]
    ns, no = len(s["pos"]), len(o["pos"])
    k = draw(hperm.integers(0, min(ns, no)))
    if large and draw(st.booleans()):
        k = max(0, min(ns, no) - draw(hperm.integers(0, 4)))
    keys = list(draw(hperm.permutations(range(no))))[:k]
    vals = list(draw(hperm.permutations(range(ns))))[:k]
    mp = {str(a): b for a, b in zip(keys, vals)}
    # make some existing terms coincide with mapped new terms (forwards, backwards, or in another order)
    if mp:
        for kind in M.KINDS:
            for t in o[kind + "s"]:
                if all(str(i) in mp for i in t) and s[kind + "_types"] and draw(st.booleans()):
                    img = [mp[str(i)] for i in t]
                    how = draw(st.sampled_from(["fwd", "rev", "rot"]))
                    img = img if how == "fwd" else img[::-1] if how == "rev" else img[1:] + img[:1]
                    if min(tuple(img), tuple(img[::-1])) not in [min(tuple(x), tuple(x[::-1])) for x in s[kind + "s"]]:
                        # one existing term on those atoms, or two / three (a torsion written as several terms, the second
                        # possibly listed backwards): the new term supersedes all of them
                        for rep in range(draw(st.sampled_from([1, 1, 2, 3]))):
                            s[kind + "s"].append(img if rep != 1 or draw(st.booleans()) else img[::-1])
                            s[kind + "_types"].append(s[kind + "_types"][rep % len(s[kind + "_types"])])
                            if s["extra_%s_labels" % kind]:
                                s["extra_%s_fields" % kind].append(list(s["extra_%s_fields" % kind][0]))
    return {"self": s, "other": o, "map": mp, "mode": draw(st.sampled_from(["default", "explicit-offsets", "repeated", "repeated-same-map", "edited-then-again"]))}


def random_oracle(case, stats):
    oracle(case, stats)
    gen_atoms.spec_stats(case["self"], stats, "self:")
    gen_atoms.spec_stats(case["other"], stats, "other:")
    no = len(case["other"]["pos"])
    stats.count("other-atoms:%s" % ("<=8" if no <= 8 else "9+"))
    if no >= 9 and len(case["map"]) * 2 >= no:
        stats.count("other-9+-atoms-mostly-shared")


PARTS = [
    EnumPart("exhaustive-small", enum_cases, oracle, exhaustive=lambda tier: tier == "thorough", chunk=400),
    HypPart("random", lambda tier: random_case(), random_oracle, {"quick": 5000, "thorough": 40000}),
    FuzzPart("coverage-guided-random", "random", runs=5000),
]
