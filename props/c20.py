"""C20 — the command line does exactly load, replicate, find/replace, save."""
import io
import math
import os
import random
import re
import shutil

import numpy as np
from hypothesis import strategies as st

from mv import hperm

from mv import gen_geom, geom, mf, ref_cif, repl
from mv.quiet import silenced, workdir
from mv.runner import EnumPart, HypPart, Violation

PROPERTY = "C20"
RULE = ("The CLI is invoked in-process (click.testing.CliRunner) on files the harness writes itself (LAMMPS data, CIF, "
        "CML inputs; CML / LAMMPS data / CIF patterns; .lmpdat, .cif and ASE (.xyz) outputs). Planted orthorhombic and "
        "tilted structures with 3-4 noisy copies of an asymmetric pattern and a derived replacement; every option is "
        "drawn independently with probability 1/2 and always with a non-default, observable value: --atol 0.2/0.3 with "
        "copies distorted beyond 0.05, -p k/M with 0<k<M, -ap1/-ap2/-op hints (incl. index 0) on distorted copies, "
        "--replicate with unequal factors, --mic forcing >= 2 replicas in a direction, -q with distinct charges, --pp, "
        "--framework-element with ASE output. Oracle: differential - the same pipeline written through the API from the "
        "documentation (load; charges; replicate; ceil(2 mic / L) replication; pair-coefficient assignment; find or "
        "replace with the same options; save) with identical RNG seeds must give a byte-identical output file; "
        "find-only runs must print the API's count and match list and write the unmodified structure. Plus the "
        "documented example command lines on the example files (thorough: all; quick: example 1). Non-trivial = >= 2 "
        "options with non-default values; distinct by hash.")
ASSUMPTIONS = ["the API pipeline is a second implementation of the documentation; a misreading shared with the CLI is invisible",
               "--dumppath and --extract-uc are not in the statement's option list and are not exercised"]


# ---------------------------------------------------------------------------------------------------------------------
# harness-side writers

def write_lmpdat(path, cell, pos, els, charges, groups, labels=None, split=False):
    """split: atoms of one element alternate between two atom types (as in a typed force-field file)"""
    from mofun.atomic_masses import ATOMIC_MASSES
    akey = [(els[i], (i % 2) if split else 0) for i in range(len(els))]
    types = list(dict.fromkeys(akey))
    L = ["harness input (written by harness)", "", "%d atoms" % len(pos), "0 bonds", "0 angles", "0 dihedrals", "0 impropers", "",
         "%d atom types" % len(types)]
    c = np.array(cell)
    L += [" %10.6f %10.6f xlo xhi" % (0, c[0, 0]), " %10.6f %10.6f ylo yhi" % (0, c[1, 1]), " %10.6f %10.6f zlo zhi" % (0, c[2, 2])]
    if abs(c[1, 0]) + abs(c[2, 0]) + abs(c[2, 1]) > 0:
        L.append(" %10.6f %10.6f %10.6f xy xz yz" % (c[1, 0], c[2, 0], c[2, 1]))
    L += ["", "Masses", ""]
    for i, (t, k) in enumerate(types):
        L.append(" %d %10.6f   # %s" % (i + 1, ATOMIC_MASSES[t], t if not split else "%s_%d" % (t, k)))
    L += ["", "Atoms", ""]
    for i, p in enumerate(pos):
        L.append(" %d %d %d %10.6f %10.6f %10.6f %10.6f   # %s" % (i + 1, groups[i] + 1, types.index(akey[i]) + 1, charges[i], p[0], p[1], p[2], els[i]))
    with open(path, "w") as f:
        f.write("\n".join(L) + "\n")


def write_cif(path, cell, pos, els, cart=False):
    c = np.array(cell, float)
    a, b, cc = [np.linalg.norm(v) for v in c]
    ang = lambda u, v: math.degrees(math.acos(np.dot(u, v) / (np.linalg.norm(u) * np.linalg.norm(v))))
    cnt, labels = {}, []
    for e in els:
        cnt[e] = cnt.get(e, 0) + 1
        labels.append("%s%d" % (e, cnt[e]))
    fr = geom.frac(c, pos)
    doc = {"name": "harness", "hm": "P 1", "cell": ["%.10f" % a, "%.10f" % b, "%.10f" % cc, "%.8f" % ang(c[1], c[2]), "%.8f" % ang(c[0], c[2]), "%.8f" % ang(c[0], c[1])],
           "atom_tags": ["_atom_site_label", "_atom_site_type_symbol", "_atom_site_fract_x", "_atom_site_fract_y", "_atom_site_fract_z"],
           "atom_rows": [[labels[i], els[i]] + ["%.8f" % x for x in fr[i]] for i in range(len(els))], "loops": []}
    with open(path, "w") as f:
        f.write(ref_cif.emit(doc))


def write_pattern(path, pos, els, fmt):
    if fmt == "cml":
        L = ["<molecule>", " <atomArray>"]
        for i, (p, e) in enumerate(zip(pos, els)):
            L.append('  <atom id="a%d" elementType="%s" x3="%r" y3="%r" z3="%r"/>' % (i + 1, e, float(p[0]), float(p[1]), float(p[2])))
        L += [" </atomArray>", "</molecule>"]
        with open(path, "w") as f:
            f.write("\n".join(L) + "\n")
    elif fmt == "cif":
        cnt, labels = {}, []
        for e in els:
            cnt[e] = cnt.get(e, 0) + 1
            labels.append("%s%d" % (e, cnt[e]))
        doc = {"name": "pattern", "hm": None, "cell": None,
               "atom_tags": ["_atom_site_label", "_atom_site_type_symbol", "_atom_site_Cartn_x", "_atom_site_Cartn_y", "_atom_site_Cartn_z"],
               "atom_rows": [[labels[i], els[i]] + ["%.10f" % float(x) for x in pos[i]] for i in range(len(els))], "loops": []}
        with open(path, "w") as f:
            f.write(ref_cif.emit(doc))
    else:
        from mofun.atomic_masses import ATOMIC_MASSES
        types = list(dict.fromkeys(els))
        L = ["pattern (written by harness)", "", "%d atoms" % len(pos), "0 bonds", "0 angles", "0 dihedrals", "0 impropers", "", "%d atom types" % len(types), "",
             "Masses", ""]
        for i, t in enumerate(types):
            L.append(" %d %10.6f   # %s_pat" % (i + 1, ATOMIC_MASSES[t], t))
        L += ["", "Atoms", ""]
        for i, p in enumerate(pos):
            L.append(" %d 1 %d %10.6f %.10f %.10f %.10f" % (i + 1, types.index(els[i]) + 1, 0.25 + 0.01 * i, p[0], p[1], p[2]))
        with open(path, "w") as f:
            f.write("\n".join(L) + "\n")


# ---------------------------------------------------------------------------------------------------------------------

@st.composite
def case(draw):
    mode = draw(st.sampled_from(["replace", "replace", "replace", "find", "convert"]))
    infmt = draw(st.sampled_from(["lmpdat", "cif", "lmpdat"])) if mode != "convert" else draw(st.sampled_from(["lmpdat", "cif", "cml"]))
    cellk = draw(st.sampled_from(["ortho", "ortho", "tilt", "tilt-yz"]))
    atol_opt = draw(st.booleans())
    atol = draw(st.sampled_from([0.2, 0.3])) if atol_opt else 0.05
    pat = draw(gen_geom.pattern(classes=["generic", "chiral", "rod", "planar"], max_atoms=5, min_atoms=3, alphabet=["C", "N", "O", "H"]))
    rp = draw(repl.derived_replacement(pat, kinds=["larger", "equal", "larger", "smaller"]))
    d_all = geom.diameter(list(pat["pos"]) + list(rp["pos"]))
    # noise: with --atol some copies are distorted beyond the default tolerance; hints need distorted copies too
    noise = (0.25, 0.35) if atol_opt else (0.0, 1 / 16.0)
    base = draw(gen_geom.planted(pat=pat, extra_diam=d_all, width_factor=2.0, max_copies=4, min_copies=3,
                                 cell_classes=["ortho"] if cellk == "ortho" else ["tilt-yz"] if cellk == "tilt-yz" else ["tilt", "tilt-neg"],
                                 tightness=[1.5, 3.0],
                                 with_decoys=False, with_hints=False, noise_levels=noise, atols=[atol], bystanders=2,
                                 pose_classes=["random", "axis", "random"]))
    n = len(pat["pos"])
    opts = {}
    if atol_opt:
        opts["atol"] = atol
    if draw(st.booleans()) and mode == "replace":
        K = len(base["meta"]["copies"])
        opts["p"] = draw(st.sampled_from([k / float(K) for k in range(1, K)] + [0.5, 0.34, 0.0, 1.0]))
    if draw(st.booleans()) and mode == "replace":
        h, form = draw(gen_geom.hints(pat, force_form=draw(st.sampled_from(["ap1", "ap2", "pair", "triple", "triple"]))))
        opts["hints"] = h
    if draw(st.booleans()) and infmt != "cml":
        opts["replicate"] = draw(st.sampled_from([[2, 1, 1], [1, 2, 1], [1, 1, 2], [2, 1, 2], [1, 2, 2]]))
    if draw(st.booleans()) and infmt != "cml":      # for a cell that is not orthorhombic the documented outcome is: no replication
        diag = np.diag(np.array(base["cell"]))
        ax = draw(hperm.integers(0, 2))
        # 2 mic / L in (1, 2] along one axis  ->  exactly 2 replicas there; also ratios a hair (2e-4 .. 3e-4, far above
        # float noise) above or below an integer, where the ceiling decides between n and n + 1 replicas
        opts["mic"] = float(diag[ax]) * draw(st.sampled_from([0.55, 0.75, 0.99, 0.5001, 0.4999, 1.00015]))
    if draw(st.booleans()):
        opts["charges"] = True
    if draw(st.booleans()):
        opts["pp"] = True
    outfmt = draw(st.sampled_from(["lmpdat", "lmpdat", "cif"]))
    if draw(hperm.integers(0, 4)) == 0 and infmt != "cml":
        opts["framework_element"] = draw(st.sampled_from(["Xe", "Au"]))
        outfmt = "xyz"
    groups = [draw(hperm.integers(0, 1)) for _ in base["sels"]]
    pels = list(pat["els"])
    if mode == "find" and draw(hperm.integers(0, 4)) == 0:
        # a pattern that does not occur (an element the structure does not contain): nothing found, the structure is still written
        pels[draw(hperm.integers(0, len(pels) - 1))] = "Xe"
        opts["absent"] = True
    outside = None
    if mode == "find" and infmt == "lmpdat" and draw(st.booleans()):
        outside = [[draw(st.sampled_from([0, 0, 0, 1, -1])) for _ in range(3)] if draw(hperm.integers(0, 3)) == 0 else [0, 0, 0] for _ in base["sels"]]
    return {"mode": mode, "infmt": infmt, "outfmt": outfmt, "cell": base["cell"], "spos": base["spos"], "sels": base["sels"], "outside": outside,
            "groups": groups, "ppos": pat["pos"], "pels": pels, "rpos": rp["pos"], "rels": rp["els"],
            "findfmt": draw(st.sampled_from(["cml", "lmpdat", "cif"])), "replfmt": draw(st.sampled_from(["cml", "lmpdat", "cif"])),
            "opts": opts, "seeds": base["seeds"], "meta": base["meta"], "split_types": draw(st.booleans())}


@st.composite
def tiny_case(draw):
    """degenerate inputs: structures of one or two atoms (a single ion in its cell), one-atom patterns"""
    n = draw(hperm.integers(1, 2))
    side = [draw(st.sampled_from([6.0, 7.5, 9.0, 12.0])) for _ in range(3)]
    cell = np.diag(side)
    sels = [draw(st.sampled_from(["C", "N", "O", "Na", "Cl"])) for _ in range(n)]
    spos = [[draw(st.floats(0.05, 0.95)) * side[k] for k in range(3)] for _ in range(n)]
    if n == 2 and np.linalg.norm(np.array(spos[0]) - np.array(spos[1])) < 1.0:
        spos[1] = [(spos[0][k] + side[k] / 2.0) % side[k] for k in range(3)]
    mode = draw(st.sampled_from(["convert", "convert", "find", "replace"]))
    infmt = draw(st.sampled_from(["lmpdat", "cif"]))
    opts = {}
    if draw(hperm.integers(0, 3)) > 0:
        opts["charges"] = True
    if draw(st.booleans()):
        opts["replicate"] = draw(st.sampled_from([[2, 1, 1], [1, 2, 1], [1, 1, 2], [2, 2, 1]]))
    if draw(hperm.integers(0, 2)) == 0:
        opts["mic"] = side[draw(hperm.integers(0, 2))] * draw(st.sampled_from([0.55, 0.75]))
    if draw(st.booleans()):
        opts["pp"] = True
    others = [e for e in ["C", "N", "O", "Na", "Cl", "F"] if e != sels[0]]
    return {"mode": mode, "infmt": infmt, "outfmt": draw(st.sampled_from(["lmpdat", "cif"])), "cell": cell.tolist(),
            "spos": spos, "sels": sels, "groups": [draw(hperm.integers(0, 1)) for _ in sels],
            "ppos": [[0.0, 0.0, 0.0]], "pels": [sels[0]], "rpos": [[0.0, 0.0, 0.0]], "rels": [draw(st.sampled_from(others))],
            "findfmt": draw(st.sampled_from(["cml", "lmpdat", "cif"])), "replfmt": draw(st.sampled_from(["cml", "lmpdat", "cif"])),
            "opts": opts, "seeds": [draw(hperm.integers(0, 2 ** 31 - 1)), draw(hperm.integers(0, 2 ** 31 - 1))],
            "meta": {"tiny": n}, "split_types": False}


def cli_args(c, d):
    o = c["opts"]
    args = [os.path.join(d, "in." + c["infmt"]), os.path.join(d, "out_cli." + c["outfmt"])]
    if c["mode"] in ("replace", "find"):
        args += ["-f", os.path.join(d, "find." + c["findfmt"])]
    if c["mode"] == "replace":
        args += ["-r", os.path.join(d, "repl." + c["replfmt"])]
    if "atol" in o:
        args += ["--atol", repr(o["atol"])]
    if "p" in o:
        args += ["-p", repr(o["p"])]
    if "hints" in o:
        for flag, v in zip(("-ap1", "-ap2", "-op"), o["hints"]):
            if v is not None:
                args += [flag, str(v)]
    if "replicate" in o:
        args += ["--replicate"] + [str(x) for x in o["replicate"]]
    if "mic" in o:
        args += ["--mic", repr(o["mic"])]
    if "charges" in o:
        args += ["-q", os.path.join(d, "charges.txt")]
    if o.get("pp"):
        args += ["--pp"]
    if "framework_element" in o:
        args += ["--framework-element", o["framework_element"]]
    return args


def api_pipeline(c, d, outpath):
    """the documented pipeline through the API; returns what a find-only run should print"""
    from mofun import Atoms, find_pattern_in_structure, replace_pattern_in_structure
    from mofun import rough_uff
    o = c["opts"]
    atoms = Atoms.load(os.path.join(d, "in." + c["infmt"]))
    if "charges" in o:
        with open(os.path.join(d, "charges.txt")) as f:
            atoms.charges = np.array([float(x) for x in f.read().split()])
    if "replicate" in o:
        atoms = atoms.replicate(tuple(o["replicate"]))
    if "mic" in o and atoms.cell is not None:
        diag = np.diag(atoms.cell)
        if atoms.cell_is_orthorhombic():
            atoms = atoms.replicate(tuple(int(math.ceil(2 * o["mic"] / L)) for L in diag))
    if o.get("pp"):
        rough_uff.assign_pair_coeffs(atoms, assign_atom_type_labels_from_elements=True)
    found = None
    if c["mode"] in ("replace", "find"):
        search = Atoms.load(os.path.join(d, "find." + c["findfmt"]))
        kw = {}
        if "atol" in o:
            kw["atol"] = o["atol"]
        if c["mode"] == "replace":
            rp = Atoms.load(os.path.join(d, "repl." + c["replfmt"]))
            if "hints" in o:
                for name, v in zip(("axisp1_idx", "axisp2_idx", "opoint_idx"), o["hints"]):
                    if v is not None:
                        kw[name] = v
            if "p" in o:
                kw["replace_fraction"] = o["p"]
            atoms = replace_pattern_in_structure(atoms, search, rp, **kw)
        else:
            # "writes the structure unmodified": the search runs on a copy, what is saved has not been through it
            found = find_pattern_in_structure(atoms.copy(), search, **kw)
    if c["outfmt"] in ("lmpdat", "cif"):
        atoms.save(outpath)
    else:
        ase_atoms = atoms.to_ase()
        if "framework_element" in o:
            syms = list(ase_atoms.symbols)
            for i, g in enumerate(atoms.groups):
                if int(g) == 0:
                    syms[i] = o["framework_element"]
            ase_atoms.symbols = syms
        ase_atoms.set_pbc(True)
        ase_atoms.write(outpath)
    return found


def _tok(t):
    try:
        return round(float(t), 5)
    except ValueError:
        return t


def same_content(a, b, fmt):
    """None if the two output files state the same content, else a short reason"""
    if fmt == "lmpdat":
        from mv import ref_lammps
        try:
            pa, pb = ref_lammps.parse(a), ref_lammps.parse(b)
        except ref_lammps.FormatError as e:
            return "not a well-formed LAMMPS data file: %s" % e
        if pa["counts"] != pb["counts"] or pa["types"] != pb["types"]:
            return "header counts differ: %r vs %r" % ((pa["counts"], pa["types"]), (pb["counts"], pb["types"]))
        for k in set(pa["box"]) | set(pb["box"]):
            if k not in pa["box"] or k not in pb["box"] or max(abs(x - y) for x, y in zip(pa["box"][k], pb["box"][k])) > 1e-5:
                return "box differs"
        if (pa["tilt"] is None) != (pb["tilt"] is None) or (pa["tilt"] and max(abs(x - y) for x, y in zip(pa["tilt"], pb["tilt"])) > 1e-5):
            return "tilt differs"
        if set(pa["sections"]) != set(pb["sections"]):
            return "sections differ: %r vs %r" % (sorted(pa["sections"]), sorted(pb["sections"]))
        for name in pa["sections"]:
            ra, rb = pa["sections"][name], pb["sections"][name]
            if len(ra) != len(rb):
                return "%s has %d vs %d rows" % (name, len(ra), len(rb))
            for (ta, _), (tb, _) in zip(ra, rb):
                if [_tok(x) for x in ta] != [_tok(x) for x in tb]:
                    return "%s row differs: %r vs %r" % (name, ta, tb)
        return None
    la = [[_tok(x) for x in l.split()] for l in a.split("\n") if l.strip() and not l.lstrip().startswith("#")]
    lb = [[_tok(x) for x in l.split()] for l in b.split("\n") if l.strip() and not l.lstrip().startswith("#")]
    if la != lb:
        return "content lines differ"
    return None


def oracle(c, stats):
    from click.testing import CliRunner
    from mofun.cli.mofun_cli import mofun_cli
    d = os.path.join(workdir(), "c20")
    shutil.rmtree(d, ignore_errors=True)
    os.makedirs(d)
    N = len(c["sels"])
    charges0 = [0.0] * N
    if c["infmt"] == "lmpdat":
        spos_in = c["spos"]
        if c.get("outside"):
            # the same crystal with a few atoms listed one cell vector outside the box (as after an unwrapped simulation)
            C_ = np.array(c["cell"], float)
            spos_in = [list(np.array(p_) + np.array(sh_, float) @ C_) for p_, sh_ in zip(c["spos"], c["outside"])]
        write_lmpdat(os.path.join(d, "in.lmpdat"), c["cell"], spos_in, c["sels"], [0.01 * (i % 7) - 0.03 for i in range(N)], c["groups"],
                     split=c.get("split_types", False))
    elif c["infmt"] == "cif":
        write_cif(os.path.join(d, "in.cif"), c["cell"], c["spos"], c["sels"])
    else:
        write_pattern(os.path.join(d, "in.cml"), c["spos"], c["sels"], "cml")
    if c["mode"] in ("replace", "find"):
        write_pattern(os.path.join(d, "find." + c["findfmt"]), c["ppos"], c["pels"], c["findfmt"])
    if c["mode"] == "replace":
        write_pattern(os.path.join(d, "repl." + c["replfmt"]), c["rpos"], c["rels"], c["replfmt"])
    if "charges" in c["opts"]:
        with open(os.path.join(d, "charges.txt"), "w") as f:
            f.write("\n".join("%.4f" % (0.1 + 0.013 * i) * 1 for i in range(N)) + "\n\n")
    args = cli_args(c, d)
    api_out = os.path.join(d, "out_api." + c["outfmt"])
    api_exc = None
    try:
        mf.seed_rngs(c["seeds"])
        with silenced():
            found = api_pipeline(c, d, api_out)
    except Exception as e:
        api_exc = e
        found = None
    mf.seed_rngs(c["seeds"])
    res = CliRunner().invoke(mofun_cli, args)
    shown = " ".join(a if not a.startswith(d) else os.path.basename(a) for a in args)
    if api_exc is not None:
        if res.exception is None:
            raise Violation("cli-succeeds-where-api-fails", "mofun %s: API pipeline raised %r, CLI exit code %d" % (shown, api_exc, res.exit_code))
        stats.count("both-raise:%s" % type(api_exc).__name__)
        return
    if res.exception is not None or res.exit_code != 0:
        import traceback
        tb = "".join(traceback.format_exception(*res.exc_info))[-600:] if res.exc_info else ""
        raise Violation("cli-error", "mofun %s: exit code %d, %r; the API pipeline succeeds\n%s" % (shown, res.exit_code, res.exception, tb),
                        data={"exc": type(res.exception).__name__})
    cli_out = os.path.join(d, "out_cli." + c["outfmt"])
    if not os.path.exists(cli_out):
        raise Violation("no-output", "mofun %s wrote no output file" % shown)
    with open(cli_out) as f:
        t_cli = f.read()
    with open(api_out) as f:
        t_api = f.read()
    if t_cli != t_api:
        # the statement asks for "a file describing the same structure": when the bytes differ, compare what the two files
        # say (numbers numerically, words literally, comments ignored) before calling it a violation
        why = same_content(t_cli, t_api, c["outfmt"])
        if why is not None:
            la, lb = t_cli.split("\n"), t_api.split("\n")
            diff = [(x, y) for x, y in zip(la, lb) if x != y][:2]
            raise Violation("output-differs", "mofun %s: output does not describe the same structure as the API pipeline (%s); "
                            "%d vs %d lines; first differing lines (CLI / API): %r" % (shown, why, len(la), len(lb), diff))
        stats.count("bytes-differ-but-same-content")
    if c["mode"] == "find":
        m = re.search(r"Found (\d+) instances", res.output)
        if not m or int(m.group(1)) != len(found):
            raise Violation("find-count", "mofun %s printed %r, API finds %d" % (shown, res.output[:200], len(found)))
        printed = re.findall(r"\(([\d, ]+)\)", res.output)
        got = [tuple(int(x) for x in p.replace(" ", "").strip(",").split(",")) for p in printed]
        want = [tuple(int(x) for x in mm) for mm in found]
        if got != want:
            raise Violation("find-list", "mofun %s printed matches %r, API reports %r" % (shown, got, want))
    o = c["opts"]
    for k in o:
        stats.count("opt:" + k)
    stats.count("mode:" + c["mode"])
    stats.count("in:" + c["infmt"])
    stats.count("out:" + c["outfmt"])
    stats.count("n-options:%d" % len(o))
    if c.get("outside") and any(any(x) for x in c["outside"]):
        stats.count("input:atoms-listed-outside-the-box")
    if c.get("split_types") and c["infmt"] == "lmpdat":
        stats.count("input:two-types-per-element")
    if "tiny" in c.get("meta", {}):
        stats.count("input:%d-atom-structure" % c["meta"]["tiny"])
    if len(o) >= 2:
        stats.mark_nontrivial(c)


# ---------------------------------------------------------------------------------------------------------------------
# documented example command lines

DOC = [
    ("example1", ["uio66.cif", "OUT.lmpdat", "--find", "uio66-linker.cml", "--replace", "uio66-linker-oh.cml"], "quick"),
    ("example1-cif", ["uio66.cif", "OUT.cif", "--find", "uio66-linker.cml", "--replace", "uio66-linker-oh.cml"], "thorough"),
    ("example2-10", ["uio66.cif", "OUT.cif", "-f", "uio66-linker.cml", "-r", "uio66-linker-defective.cml", "--replicate", "2", "2", "2", "--replace-fraction=0.10"], "thorough"),
    ("example3a", ["uio66.cif", "OUT.lmpdat", "--find", "uio66-metal-center.cml", "--replace", "uio66-metal-center-parameterized.lmpdat"], "thorough"),
    ("example3c", ["uio66.cif", "OUT.lmpdat", "--find", "uio66-metal-center-parameterized.lmpdat", "--replace", "uio66-metal-center-parameterized.lmpdat"], "thorough"),
    ("find-only", ["uio66.cif", "OUT.lmpdat", "--find", "uio66-linker.cml"], "quick"),
]


def doc_cases(tier, seed):
    return [{"doc": name, "seeds": [seed, seed + 7]} for name, _, t in DOC if t == "quick" or tier == "thorough"]


def doc_oracle(c, stats):
    import mofun
    from click.testing import CliRunner
    from mofun import Atoms, find_pattern_in_structure, replace_pattern_in_structure
    from mofun.cli.mofun_cli import mofun_cli
    name, args, _ = [x for x in DOC if x[0] == c["doc"]][0]
    root = os.path.join(os.path.dirname(os.path.dirname(os.path.abspath(mofun.__file__))), "docs", "examples")
    d = os.path.join(workdir(), "c20doc")
    shutil.rmtree(d, ignore_errors=True)
    os.makedirs(d)
    fmt = args[1].split(".")[1]
    out_cli, out_api = os.path.join(d, "cli." + fmt), os.path.join(d, "api." + fmt)
    full = [os.path.join(root, a) if (a.endswith((".cif", ".cml", ".lmpdat")) and a != args[1]) else a for a in args]
    full[1] = out_cli
    mf.seed_rngs(c["seeds"])
    res = CliRunner().invoke(mofun_cli, full)
    if res.exception is not None or res.exit_code != 0:
        raise Violation("cli-error", "documented command %s: exit %d %r" % (name, res.exit_code, res.exception))
    # API side
    mf.seed_rngs(c["seeds"])
    with silenced():
        atoms = Atoms.load(os.path.join(root, args[0]))
        if "--replicate" in args:
            i = args.index("--replicate")
            atoms = atoms.replicate(tuple(int(x) for x in args[i + 1:i + 4]))
        find = [args[i + 1] for i, a in enumerate(args) if a in ("--find", "-f")][0]
        search = Atoms.load(os.path.join(root, find))
        rep = [args[i + 1] for i, a in enumerate(args) if a in ("--replace", "-r")]
        frac = [float(a.split("=")[1]) for a in args if a.startswith("--replace-fraction=")]
        if rep:
            kw = {"replace_fraction": frac[0]} if frac else {}
            atoms = replace_pattern_in_structure(atoms, search, Atoms.load(os.path.join(root, rep[0])), **kw)
            found = None
        else:
            found = find_pattern_in_structure(atoms, search)
        atoms.save(out_api)
    ta, tb = open(out_cli).read(), open(out_api).read()
    if ta != tb:
        why = same_content(ta, tb, fmt)
        if why is not None:
            raise Violation("output-differs", "documented command %s: CLI output does not describe the same structure as the API "
                            "pipeline (%s)" % (name, why))
    if found is not None:
        m = re.search(r"Found (\d+) instances", res.output)
        if not m or int(m.group(1)) != len(found):
            raise Violation("find-count", "documented find-only: %r vs %d" % (res.output[:100], len(found)))
    stats.count("doc:" + name)
    stats.mark_nontrivial(c)


PARTS = [
    HypPart("options", lambda tier: case(), oracle, {"quick": 1600, "thorough": 12000}),
    HypPart("tiny-structures", lambda tier: tiny_case(), oracle, {"quick": 400, "thorough": 3000}),
    EnumPart("documented-commands", doc_cases, doc_oracle, exhaustive=lambda tier: False, chunk=1),
]
