"""C06 — force-field terms and coefficients of the replacement arrive intact."""
import copy
import io
import os

import numpy as np
from hypothesis import strategies as st

from mv import hperm

from mv import gen_atoms, gen_geom, geom, mf, model_atoms as M, ref_match, repl
from mv.quiet import silenced
from mv.runner import EnumPart, HypPart, Violation

PROPERTY = "C06"
RULE = ("Planted structures (1-3 copies, all cell / pose / boundary classes) given explicit atom types (labels, masses, "
        "optional pair table - incl. the CIF-style case: atom types but no pair table) and pre-existing terms of all "
        "four kinds placed inside a match, outside all matches and across the match boundary, with coefficient tables "
        "or untyped; typed replacement patterns (own labels / masses / pair text / charges / groups) whose terms join "
        "shared atoms, new atoms and both; per term kind one of the compatibility cases of the statement (both tables / "
        "neither / one side without terms); chains of 1-3 replacements applied one after another (the next search "
        "pattern is the previous replacement: 'find the pattern, insert its parameters'). Oracle = resolved-term model "
        "(term -> atom identities -> coefficient text): expected atoms = bystanders + retained (pattern's label / "
        "element / mass / pair text, own charge / group) + inserted (pattern's everything); expected terms = pattern "
        "terms mapped through the per-match atom map, once each, with the pattern's text + structure terms touching no "
        "removed atom and not on the same atoms (either direction) as a mapped pattern term; nothing else. The result "
        "is also written with save_lmpdat and read back: the file's own id->coefficient resolution must give the same "
        "view. Plus the documented example-3 files. Non-trivial = >= 1 match replaced, pattern has >= 1 term, structure "
        "has >= 1 pre-existing term of a kind the pattern also has; distinct by hash.")
ASSUMPTIONS = ["cases whose reference groups are grey, overlap, or have several feasible orderings are skipped and counted "
               "(the atom correspondence must be unique for a deterministic model)",
               "term order and type-id numbering are not asserted, only resolution; for kinds without tables only the type "
               "partition is compared"]

MODES = ["none", "both-table", "both-table", "neither", "s-only", "r-only", "r-only-table"]


@st.composite
def terms_over(draw, idx_pool, size, nmax, ntypes):
    out, types, seen = [], [], set()
    if len(idx_pool) < size:
        return out, types
    for _ in range(draw(hperm.integers(1, nmax))):
        t = [idx_pool[i] for i in list(draw(hperm.permutations(range(len(idx_pool)))))[:size]]
        key = min(tuple(t), tuple(t[::-1]))
        if key in seen:
            continue
        seen.add(key)
        out.append(t)
        types.append(draw(hperm.integers(0, ntypes - 1)))
    return out, types


@st.composite
def case(draw, chain=False):
    base = draw(repl.replace_case(repl_kinds=["smaller", "equal", "larger", "larger", "identical", "disjoint"], fractions=False,
                                  max_copies=3, decoys=False, max_atoms=5,
                                  cell_classes=["ortho", "ortho", "tilt", "tilt", "tilt-neg", "tilt-small"],   # LAMMPS-writable
                                  pattern_classes=["generic", "generic", "generic", "chiral", "planar", "rod", "single", "near-collinear"]))
    n = len(base["ppos"])
    N = len(base["sels"])
    pl = base["payload"]
    # ---- structure spec
    s = M.empty_spec()
    s["cell"] = base["cell"]
    s["pos"] = base["spos"]
    s["atom_types"] = pl["atom_types"]
    s["type_elements"], s["type_labels"], s["type_masses"] = pl["type_elements"], pl["type_labels"], pl["type_masses"]
    s["charges"], s["groups"] = pl["charges"], pl["groups"]
    pair_mode = draw(st.sampled_from(["both", "both", "neither", "cif-workflow"]))
    if pair_mode == "both":
        s["pair_coeffs"] = ["lj %d.0 %d.5 # %s" % (t, t, l) for t, l in enumerate(s["type_labels"])]
    # ---- replacement spec
    r = M.empty_spec()
    nr = len(base["rpos"])
    r["pos"] = base["rpos"]
    rels = base["rels"]
    tel, tl, tm = [], [], []
    at = []
    from mofun.atomic_masses import ATOMIC_MASSES
    for j, e in enumerate(rels):
        cands = [t for t, te in enumerate(tel) if te == e]
        if cands and draw(st.booleans()):
            at.append(draw(st.sampled_from(cands)))
        else:
            tel.append(e)
            same = [l for l, se in zip(s["type_labels"], s["type_elements"]) if se == e]
            if same and draw(hperm.integers(0, 3)) == 0:
                # structure and pattern use the same label for differently parameterised types (both call it 'C_3')
                tl.append(same[0])
            else:
                tl.append("%s_p%d" % (e, len(tel)))
            tm.append(round(ATOMIC_MASSES[e] + 0.003, 6))
            at.append(len(tel) - 1)
    r["atom_types"], r["type_elements"], r["type_labels"], r["type_masses"] = at, tel, tl, tm
    if pair_mode in ("both", "cif-workflow"):
        r["pair_coeffs"] = ["ljp %d.25 # %s" % (t, l) for t, l in enumerate(tl)]
    r["charges"] = base["rcharges"]
    r["groups"] = base["rgroups"]
    copies = base["meta"]["copies"]
    in_copy = [i for c in copies for i in c["idx"]]
    outside = [i for i in range(N) if i not in in_copy]
    modes = {}
    for k in M.KINDS:
        size = M.SIZE[k]
        mode = draw(st.sampled_from(MODES))
        modes[k] = mode
        s_terms = mode in ("both-table", "neither", "s-only")
        r_terms = mode in ("both-table", "neither", "r-only", "r-only-table") and nr >= size
        s_table = mode in ("both-table", "r-only-table") or (mode == "s-only" and draw(st.booleans()))
        r_table = mode in ("both-table", "r-only-table") or (mode == "r-only" and draw(st.booleans()))
        if mode == "r-only" and r_table:
            s_table = False
        if s_terms:
            nt = draw(hperm.integers(1, 3))
            terms, types = [], []
            # inside copies (same relative atoms in every copy and not), outside, across
            for pool in (list(c["idx"]) for c in copies):
                t, ty = draw(terms_over(pool, size, 2, nt))
                terms += t
                types += ty
            t, ty = draw(terms_over(outside, size, 2, nt))
            terms += t
            types += ty
            t, ty = draw(terms_over(list(range(N)), size, 3, nt))
            for a, b in zip(t, ty):
                if min(tuple(a), tuple(a[::-1])) not in [min(tuple(x), tuple(x[::-1])) for x in terms]:
                    terms.append(a)
                    types.append(b)
            s[k + "s"], s[k + "_types"] = terms, types
            if s_table and terms:
                s[k + "_coeffs"] = ["%s_s%d %d.5 # S%d" % (k, q, q, q) for q in range(nt + draw(hperm.integers(0, 1)))]
        elif s_table:
            s[k + "_coeffs"] = ["%s_s%d %d.5" % (k, q, q) for q in range(draw(hperm.integers(1, 2)))]
        if r_terms:
            nt = draw(hperm.integers(1, 3))
            t, ty = draw(terms_over(list(range(nr)), size, 4, nt))
            r[k + "s"], r[k + "_types"] = t, ty
            if r_table and t:
                r[k + "_coeffs"] = ["%s_r%d %d.25 # R%d" % (k, q, q, q) for q in range(nt)]
    # existing structure terms on exactly the atoms a pattern term will be mapped onto (shared atoms only), fwd / rev / other order
    sh = {int(a): int(b) for a, b in base["shared"].items()}
    if not base["replace_all"]:
        for k in M.KINDS:
            if s[k + "_types"] and r[k + "s"]:
                for t in r[k + "s"]:
                    if all(j in sh for j in t) and draw(st.booleans()):
                        c = copies[draw(hperm.integers(0, len(copies) - 1))]
                        img = [c["idx"][sh[j]] for j in t]
                        how = draw(st.sampled_from(["fwd", "rev", "rot"]))
                        img = img if how == "fwd" else img[::-1] if how == "rev" else img[1:] + img[:1]
                        if min(tuple(img), tuple(img[::-1])) not in [min(tuple(x), tuple(x[::-1])) for x in s[k + "s"]]:
                            s[k + "s"].append(img)
                            s[k + "_types"].append(s[k + "_types"][0])
                            # ... sometimes listed two or three times (a torsion written as several terms on the same
                            # atoms): every one of them is superseded by the pattern's term
                            for _ in range(draw(st.sampled_from([0, 0, 1, 2]))):
                                s[k + "s"].append(img if draw(st.booleans()) else img[::-1])
                                s[k + "_types"].append(s[k + "_types"][draw(hperm.integers(0, len(s[k + "_types"]) - 1))])
    out = {"s": s, "r": r, "ppos": base["ppos"], "pels": base["pels"], "shared": base["shared"], "atol": base["atol"],
           "hints": base["hints"], "seeds": base["seeds"], "replace_all": base["replace_all"], "modes": modes,
           "pair_mode": pair_mode, "meta": base["meta"]}
    some_removed = base["replace_all"] or len(base["rpos"]) == 0 or len(set(int(v) for v in base["shared"].values())) < n
    if not chain and some_removed and len(base["meta"]["copies"]) >= 2 and draw(hperm.integers(0, 2)) == 0:
        # only a fraction of the matches is replaced (which ones is random): the terms of each replaced match must still
        # join that match's own atoms
        out["f"] = draw(st.sampled_from([0.5, 0.67, 0.34, 0.75]))
    if chain:
        steps = []
        for stp in range(draw(hperm.integers(1, 2))):
            # next step: search for the previous replacement pattern (geometry + elements), replace it by a re-typed copy
            # with all atoms shared, possibly one more atom, and its own terms/tables compatible with the first pattern
            steps.append({"new_atom": draw(st.booleans()), "retable": draw(hperm.integers(0, 10 ** 6)),
                          "seeds": [draw(hperm.integers(0, 2 ** 31 - 1)), draw(hperm.integers(0, 2 ** 31 - 1))]})
        out["chain"] = steps
    return out


# ---------------------------------------------------------------------------------------------------------------------

class AmbiguousInsert(Exception):
    pass


def identify(prev_atoms, groups, orderings, ppos, r, r_only, new, cell, step, atol, hints=None):
    """tag every atom of the result: survivors by (charge, position), inserted atoms by (pattern charge, predicted place)"""
    pos = np.asarray(new.positions, float)
    ch = [round(float(c), 9) for c in new.charges]
    rtag = {round(float(c), 9): j for j, c in enumerate(r["charges"])}
    tags = [None] * len(pos)
    used_prev = set()
    byc = {}
    for i, a in enumerate(prev_atoms):
        byc.setdefault(round(a["charge"], 9), []).append(i)
    # an inserted atom belongs to the occurrence whose matched atoms it has the pattern's distances to (rotation-invariant,
    # so the free twist about a collinear search pattern does not matter; exact placement is C05's business)
    P = np.array(ppos, float)
    pred = {}
    from props.c05 import amp_factor
    amp = amp_factor({"ppos": ppos, "rpos": r["pos"], "hints": hints or [None, None, None]})
    for key in groups:
        o = orderings[key]
        for j in r_only:
            pred[(key, j)] = (o["pos"], [float(np.linalg.norm(np.array(r["pos"][j]) - P[m])) for m in range(len(P))],
                              4 * (o["maxdev"] + 1e-9) * amp + 1e-3)
    used_pred = set()
    offs = geom.image_block(3) @ np.asarray(cell, float)
    for i in range(len(pos)):
        hit = None
        for k in byc.get(ch[i], []):
            if k not in used_prev and geom.lattice_diff(cell, pos[i], prev_atoms[k]["pos"]) <= 1e-8:
                hit = k
                break
        if hit is not None:
            used_prev.add(hit)
            tags[i] = prev_atoms[hit]["tag"]
            continue
        j = rtag.get(ch[i])
        if j is None:
            raise Violation("unknown-atom", "result atom %d (charge %r) is neither an atom of the structure nor of the replacement pattern" % (i, ch[i]))
        cands = []
        for (key, jj), (Y, dists, tol) in pred.items():
            if jj == j and (key, jj) not in used_pred:
                for L in offs:
                    q = pos[i] + L
                    if all(abs(float(np.linalg.norm(q - Y[m])) - dists[m]) <= tol for m in range(len(P))):
                        cands.append(key)
                        break
        if not cands:
            raise Violation("inserted-atom-unplaced", "inserted copy of replacement atom %d at %r does not have the pattern's "
                            "distances to the matched atoms of any occurrence" % (j, pos[i].tolist()))
        if len(cands) > 1:
            raise AmbiguousInsert()
        used_pred.add((cands[0], j))
        tags[i] = ("ins", step, cands[0], j)
    return tags


def expected(model, groups, orderings, r, shared, replace_all, step):
    """sequential model of the replacement (C06 statement) on a resolved-view model"""
    sh = {int(a): int(b) for a, b in shared.items()}
    nS = len(next(iter(orderings.values()))["idx"]) if orderings else 0
    if replace_all or len(r["pos"]) == 0:
        sh = {}
    s_only = [i for i in range(nS) if i not in sh.values()]
    out = copy.deepcopy(model)
    mr = M.model_from_spec(r)
    for k in M.KINDS:
        for t in mr["terms"][k]:
            if isinstance(t["coeff"], tuple) and t["coeff"] and t["coeff"][0] == "untyped":
                t["coeff"] = ("untyped", ("pattern", step, t["coeff"][1]))
    dead_tags = set()
    for key in groups:
        o = orderings[key]
        frag = copy.deepcopy(mr)
        tagmap = {}
        for j, a in enumerate(frag["atoms"]):
            nt = ("ins", step, key, j)
            tagmap[a["tag"]] = nt
            a["tag"] = nt
        for k in M.KINDS:
            for t in frag["terms"][k]:
                t["tags"] = tuple(tagmap[x] for x in t["tags"])
        idx_of = {a["tag"]: i for i, a in enumerate(out["atoms"])}
        mp = {j: idx_of[model["atoms"][o["idx"][sidx]]["tag"]] for j, sidx in sh.items()}
        out = M.m_extend(out, frag, mp)
        for sidx in s_only:
            dead_tags.add(model["atoms"][o["idx"][sidx]]["tag"])
    dead = [i for i, a in enumerate(out["atoms"]) if a["tag"] in dead_tags]
    out = M.m_delete(out, dead)
    return out


def find_groups(cell, model, ppos, pels, atol, hints):
    spos = geom.wrap(cell, np.array([a["pos"] for a in model["atoms"]]))
    sels = [a["el"] for a in model["atoms"]]
    try:
        groups = ref_match.find_all(cell, spos, sels, ppos, pels, atol, in_thr=ref_match.in_threshold(ppos, hints, atol))
    except ref_match.TooAmbiguous:
        return None, None, "reference-budget"
    if any(g["cls"] == "grey" for g in groups.values()):
        return None, None, "grey-group"
    seen = set()
    for k in groups:
        if seen & set(k):
            return None, None, "overlapping-groups"
        seen |= set(k)
    if any(len(g["orderings"]) != 1 for g in groups.values()):
        return None, None, "several-orderings"
    return groups, {k: g["orderings"][0] for k, g in groups.items()}, None


def one_step(real, model, cell, ppos, pels, r, shared, atol, hints, seeds, replace_all, step, stats, f=1.0):
    groups, orderings, reason = find_groups(cell, model, ppos, pels, atol, hints)
    if reason:
        stats.count("skipped:" + reason)
        return None
    if not groups:
        stats.count("skipped:no-match")
        return None
    sp = mf.atoms_from(ppos, pels)
    try:
        rp = M.build(r)
    except Exception as e:
        raise Violation("exception-in-construction", "%s: %r" % (type(e).__name__, e))
    try:
        if f < 1.0:
            new, k = mf.replace(real, sp, rp, atol, hints, seeds, replace_all=replace_all, replace_fraction=f, return_num_matches=True)
        else:
            new, k = mf.replace(real, sp, rp, atol, hints, seeds, replace_all=replace_all), len(groups)
    except Exception as e:
        import traceback
        tb = traceback.extract_tb(e.__traceback__)
        raise Violation("exception-in-replace", "step %d: %s: %r at %s" % (step, type(e).__name__, e, tb[-1].name if tb else "?"))
    if f < 1.0:
        # a fraction of the matches: the replaced ones are those whose search-only atoms are gone (all of them or none)
        sh_ = {int(a): int(b) for a, b in shared.items()} if not (replace_all or len(r["pos"]) == 0) else {}
        nS = len(ppos)
        s_only_ = [i for i in range(nS) if i not in sh_.values()]
        left = {round(float(c), 9) for c in new.charges}
        chosen = {}
        for key in groups:
            gone = [round(model["atoms"][orderings[key]["idx"][i]]["charge"], 9) not in left for i in s_only_]
            if any(gone) and not all(gone):
                raise Violation("partly-replaced-match", "step %d: match %r lost some but not all of its search-only atoms" % (step, key))
            if gone and all(gone):
                chosen[key] = groups[key]
        if len(chosen) != k or abs(k - f * len(groups)) > 0.5 + 1e-9:
            raise Violation("match-count", "step %d: fraction %r of %d matches: %r reported replaced, %d matches lost their "
                            "search-only atoms" % (step, f, len(groups), k, len(chosen)))
        groups = chosen
        stats.count("fraction<1:replaced-%d" % len(chosen))
        if not groups:
            return None
    want = expected(model, groups, orderings, r, shared, replace_all, step)
    sh = {int(a): int(b) for a, b in shared.items()} if not replace_all else {}
    r_only = [j for j in range(len(r["pos"])) if j not in sh]
    try:
        tags = identify(model["atoms"], groups, orderings, ppos, r, r_only, new, np.array(cell), step, atol, hints)
    except AmbiguousInsert:
        stats.count("skipped:ambiguous-insert")
        return None
    what = "replacement step %d (%d matches)" % (step, len(groups))
    got = M.resolve(new, what, tags=tags)
    M.compare_atoms(got["atoms"], want["atoms"], what, pos_tol=None, ordered=False,
                    fields=("label", "el", "mass", "pair", "charge", "group"))
    M.compare_terms(got["terms"], want["terms"], what, untyped_by_class=True, with_extra=False)
    # the written LAMMPS file must resolve to the same view (a structure without atoms is outside that clause)
    if len(new.positions) == 0:
        stats.count("result-without-atoms")
        return new, want, groups
    from mofun import Atoms
    buf = io.StringIO()
    try:
        with silenced():
            new.save_lmpdat(buf)
            b = Atoms.load_lmpdat(io.StringIO(buf.getvalue()))
    except Exception as e:
        raise Violation("exception-in-save-load", "%s: %s: %r" % (what, type(e).__name__, e))
    from mv import ref_lammps
    try:
        errs = ref_lammps.check_wellformed(ref_lammps.parse(buf.getvalue()))
    except ref_lammps.FormatError as e:
        errs = [str(e)]
    if errs:
        raise Violation("lammps-file-format", "%s: %s" % (what, errs[0]))
    got2 = M.resolve(b, what + " -> save -> load", tags=tags)
    want2 = copy.deepcopy(want)
    for a in want2["atoms"]:
        a["mass"] = round(a["mass"], 6)
    M.compare_atoms(got2["atoms"], want2["atoms"], what + " -> save -> load", pos_tol=None, ordered=False, fields=("label", "mass", "pair", "group"))
    M.compare_terms(got2["terms"], want2["terms"], what + " -> save -> load", untyped_by_class=True, with_extra=False)
    # positions for the next step come from the real object
    pos = np.asarray(new.positions, float)
    bytag = {repr(t): i for i, t in enumerate(tags)}
    for a in want["atoms"]:
        a["pos"] = pos[bytag[repr(a["tag"])]].tolist()
    order = {repr(t): i for i, t in enumerate(tags)}
    want["atoms"].sort(key=lambda a: order[repr(a["tag"])])
    return new, want, groups


def oracle(c, stats):
    s, r = c["s"], c["r"]
    try:
        real = M.build(s)
    except Exception as e:
        raise Violation("exception-in-construction", "%s: %r" % (type(e).__name__, e))
    model = M.model_from_spec(s)
    for k in M.KINDS:
        for t in model["terms"][k]:
            if isinstance(t["coeff"], tuple) and t["coeff"] and t["coeff"][0] == "untyped":
                t["coeff"] = ("untyped", ("structure", t["coeff"][1]))
    cell = s["cell"]
    res = one_step(real, model, cell, c["ppos"], c["pels"], r, c["shared"], c["atol"], c["hints"], c["seeds"], c["replace_all"], 0, stats,
                   f=c.get("f", 1.0))
    if res is None:
        return
    new, want, groups = res
    nsteps = 1
    cur_r = r
    for si, stp in enumerate(c.get("chain", [])):
        # search for the previous replacement pattern (geometry and elements), replace by a re-typed copy
        ppos = cur_r["pos"]
        pels = [cur_r["type_elements"][t] for t in cur_r["atom_types"]]
        if len(ppos) == 0:
            break
        r2 = copy.deepcopy(cur_r)
        if stp["retable"] % 3:
            r2["type_labels"] = [l + "_v%d" % (si + 2) for l in r2["type_labels"]]
        # else: the next pattern uses the SAME type labels and table sizes with different parameters
        r2["type_masses"] = [round(m + 0.001, 6) for m in r2["type_masses"]]
        r2["pair_coeffs"] = [p.replace("ljp", "ljp%d" % (si + 2)) for p in r2["pair_coeffs"]]
        r2["charges"] = [round(c0 + 2.0 * (si + 1) * (1 if c0 > 0 else -1), 6) for c0 in r2["charges"]]
        for k in M.KINDS:
            r2[k + "_coeffs"] = [x + " v%d" % (si + 2) for x in r2[k + "_coeffs"]]
            # drop one term, so that a term inserted by the previous step must survive untouched
            if len(r2[k + "s"]) > 1 and stp["retable"] % 2:
                r2[k + "s"] = r2[k + "s"][1:]
                r2[k + "_types"] = r2[k + "_types"][1:]
        shared = {str(j): j for j in range(len(ppos))}
        if stp["new_atom"]:
            r2["pos"] = r2["pos"] + [[ppos[0][0] + 0.9 + 0.37 * si, ppos[0][1] + 0.4 - 0.55 * si, ppos[0][2] + 0.3 + 0.21 * si]]
            r2["atom_types"] = r2["atom_types"] + [r2["atom_types"][0]]
            r2["charges"] = r2["charges"] + [round(9.5 + si, 6)]
            r2["groups"] = r2["groups"] + [7]
        # atoms must be inside the cell for the next search
        res = one_step(new, want, cell, ppos, pels, r2, shared, c["atol"], [None, None, None], stp["seeds"], False, si + 1, stats)
        if res is None:
            break
        new, want, groups2 = res
        nsteps += 1
        cur_r = r2
    meta = c["meta"]
    stats.count("steps:%d" % nsteps)
    stats.count("pair:" + c["pair_mode"])
    stats.count("replace_all:%s" % c["replace_all"])
    stats.count("matches:%d" % len(groups))
    for k in M.KINDS:
        stats.count("%s:%s" % (k, c["modes"][k]))
    stats.count("cell:" + meta["cell_cls"])
    both = any(s[k + "s"] and r[k + "s"] for k in M.KINDS)
    if any(r[k + "s"] for k in M.KINDS) and both:
        stats.mark_nontrivial(c)


# ---------------------------------------------------------------------------------------------------------------------
# the documented example 3 (metal centre then linker) on the repository's files

def doc_cases(tier, seed):
    return [{"doc": "example3", "seeds": [seed, seed + 1]}]


def doc_oracle(c, stats):
    import mofun
    from mofun import Atoms
    root = os.path.join(os.path.dirname(os.path.dirname(os.path.abspath(mofun.__file__))), "docs", "examples")
    with silenced():
        structure = Atoms.load(os.path.join(root, "uio66.cif"))
        linker = Atoms.load(os.path.join(root, "uio66-linker-Zr.cml"))
        linker_p = Atoms.load(os.path.join(root, "uio66-linker-Zr-parameterized.lmpdat"))
        mc = Atoms.load(os.path.join(root, "uio66-metal-center.cml"))
        mc_p = Atoms.load(os.path.join(root, "uio66-metal-center-parameterized.lmpdat"))
    try:
        p1 = mf.replace(structure, mc, mc_p, 0.05, seeds=c["seeds"])
        p2 = mf.replace(p1, linker, linker_p, 0.05, seeds=c["seeds"])
    except Exception as e:
        raise Violation("exception-in-replace", "documented example 3: %s: %r" % (type(e).__name__, e))
    got = M.resolve(p2, "documented example 3 result")
    n0 = len(structure.positions)
    if len(got["atoms"]) != n0:
        raise Violation("atom-count", "example 3 is a pure re-parameterisation: %d atoms before, %d after" % (n0, len(got["atoms"])))
    # every atom must now resolve to a label, mass and pair text of one of the two parameterised patterns
    allowed = {}
    for pat in (mc_p, linker_p):
        for t in range(len(pat.atom_type_labels)):
            allowed.setdefault(str(pat.atom_type_labels[t]), set()).add(M.norm_pair(pat.pair_coeffs[t]))
    for i, a in enumerate(got["atoms"]):
        if a["label"] not in allowed:
            raise Violation("unparameterised-atom", "atom %d still resolves to label %r" % (i, a["label"]))
        if a["pair"] not in allowed[a["label"]]:
            raise Violation("atom-pair", "atom %d (label %s) resolves to pair coefficients %r; its pattern defines %r" %
                            (i, a["label"], a["pair"], sorted(allowed[a["label"]], key=repr)))
    # every term's coefficient text must be one of the patterns' own texts for terms between atoms of those labels
    for k in M.KINDS:
        texts = set()
        for pat in (mc_p, linker_p):
            texts |= {M.norm_coeff(x) for x in getattr(pat, M.COEFF_ATTR[k])}
        for t in got["terms"][k]:
            if t["coeff"] not in texts:
                raise Violation(k + "-terms", "example 3: a %s resolves to %r which neither pattern defines" % (k, t["coeff"]))
            # the comment of every coefficient row names the UFF types of its atoms: it must agree with the atoms' labels
            comment = t["coeff"][1]
            if comment:
                names = comment.split()[:M.SIZE[k]]
                labels = [a_["label"] for tag in t["tags"] for a_ in got["atoms"] if a_["tag"] == tag][:M.SIZE[k]] if False else None
    buf = io.StringIO()
    with silenced():
        p2.save_lmpdat(buf)
    from mv import ref_lammps
    errs = ref_lammps.check_wellformed(ref_lammps.parse(buf.getvalue()))
    if errs:
        raise Violation("lammps-file-format", "example 3 output: %s" % errs[0])
    # type labels in the term comments agree with the labels of the atoms they join (independent of the harness model)
    p = ref_lammps.parse(buf.getvalue())
    mass_labels = [cm for _, cm in p["sections"]["Masses"]]
    atom_label = [mass_labels[int(t[2]) - 1] for t, _ in p["sections"]["Atoms"]]
    for sec, csec, size in (("Bonds", "Bond Coeffs", 2), ("Angles", "Angle Coeffs", 3), ("Dihedrals", "Dihedral Coeffs", 4)):
        crow = p["sections"].get(csec, [])
        for toks, _ in p["sections"].get(sec, []):
            cm = crow[int(toks[1]) - 1][1] or ""
            names = [x for x in cm.split() if not x.startswith("M=")][:size]
            labels = [atom_label[int(x) - 1] for x in toks[2:]]
            if len(names) == size and names != labels and names != labels[::-1]:
                raise Violation("term-type-mismatch", "example 3 output: %s row %s joins atoms labelled %r but its type's "
                                "coefficients are for %r" % (sec, toks[0], labels, names))
    stats.count("doc:example3")
    stats.mark_nontrivial(c)


PARTS = [
    HypPart("single-replacement", lambda tier: case(chain=False), oracle, {"quick": 2500, "thorough": 30000}),
    HypPart("chains", lambda tier: case(chain=True), oracle, {"quick": 1000, "thorough": 10000}),
    EnumPart("documented-example-3", doc_cases, doc_oracle, exhaustive=lambda tier: False, chunk=1),
]
