"""C10 — deleting atoms removes exactly them and the terms that touch them."""
import itertools

import numpy as np
from hypothesis import strategies as st

from mv import hperm

from mv import gen_atoms, model_atoms as M
from mv.quiet import silenced
from mv.runner import FuzzPart, EnumPart, HypPart, Violation

PROPERTY = "C10"
RULE = ("Exhaustive: a fixed family of structures with n = 1..5 atoms (quick) / 1..6 (thorough) - chain, star, ring, two "
        "fragments, torsion-only, atoms in no term - carrying all four term kinds, type tables, per-atom and per-term "
        "extra columns and unique identity tags x every non-empty subset of atoms x three listing orders (ascending, "
        "descending, a fixed shuffle) x index container (list / numpy array), and pop() / pop(i) for every valid i and "
        "-1; two-step deletions (delete, then delete again on the result) for n <= 4. Hypothesis: random typed "
        "structures up to 12 (thorough 40) atoms with random terms, subsets and orders. Oracle = identity-tag model: "
        "survivors are exactly the non-deleted atoms in original relative order with all per-atom data; a term survives "
        "iff none of its atoms was deleted and then joins the same tagged atoms with the same type and extra fields. "
        "Non-trivial = proper non-empty subset with at least one term removed and one surviving with shifted indices.")
RULE += (" Since rounds 9-10: A third of the sparse large structures lose 256-1200 atoms in one call (everything but the fragment and a handful of plain atoms); term tables are sometimes handed over as column-major integer arrays.")
ASSUMPTIONS = ["duplicate or out-of-range indices are outside the domain and not generated"]


def family(nmax):
    """deterministic family of small specs"""
    out = []
    for n in range(1, nmax + 1):
        for shape in ("chain", "star", "ring", "fragments", "torsion-only", "late-terms"):
            spec = M.empty_spec()
            spec["cell"] = [[9.0, 0, 0], [1.0, 9.0, 0], [0, 0, 9.0]]
            spec["type_elements"] = ["C", "O", "H"]
            spec["type_labels"] = ["C_x", "O_y", "H_z"]
            spec["type_masses"] = [12.0107, 15.9994, 1.00794]
            spec["pair_coeffs"] = ["lj 1.0 2.0 # C_x", "lj 3.0 4.0 # O_y", "lj 5.0 6.0 # H_z"]
            for i in range(n):
                spec["pos"].append([1.0 + 1.1 * i, 0.5 * (i % 2), 0.25 * i])
                spec["atom_types"].append(i % 3)
                spec["charges"].append(round((0.001 * (i + 1)) * (-1 if i % 2 else 1), 6))
                spec["groups"].append(i % 2)
            spec["extra_atom_labels"] = ["_atom_site_occupancy"]
            spec["extra_atom_fields"] = [["o%d" % i] for i in range(n)]
            if shape == "chain":
                bonds = [[i, i + 1] for i in range(n - 1)]
            elif shape == "star":
                bonds = [[0, i] for i in range(1, n)]
            elif shape == "ring":
                bonds = [[i, (i + 1) % n] for i in range(n)] if n >= 3 else [[i, i + 1] for i in range(n - 1)]
            elif shape == "fragments":
                h = n // 2
                bonds = [[i, i + 1] for i in range(h - 1)] + [[i + 1, i] for i in range(h, n - 1)]
            elif shape == "late-terms":
                # atoms 0.. carry no terms, terms live on the highest-numbered atoms
                bonds = [[i, i + 1] for i in range(max(0, n - 3), n - 1)]
            else:
                bonds = []
            adj = {i: set() for i in range(n)}
            for u, v in bonds:
                adj[u].add(v)
                adj[v].add(u)
            angles = []
            for j in range(n):
                for a, b in itertools.combinations(sorted(adj[j]), 2):
                    angles.append([a, j, b])
            dihedrals = []
            for u, v in bonds:
                for a in sorted(adj[u] - {v}):
                    for b in sorted(adj[v] - {u}):
                        if a != b:
                            dihedrals.append([a, u, v, b])
            if shape == "torsion-only" and n >= 4:
                dihedrals = [[0, 1, 2, 3]] + ([[n - 1, 2, 1, 0]] if n > 4 else [])
            impropers = [[j] + sorted(adj[j])[:3] for j in range(n) if len(adj[j]) >= 3]
            if shape == "torsion-only" and n >= 4:
                impropers = [[3, 0, 1, 2]]
            for kind, terms, ncoef in (("bond", bonds, 2), ("angle", angles[:6], 2), ("dihedral", dihedrals[:5], 3), ("improper", impropers[:2], 1)):
                spec[kind + "s"] = terms
                spec[kind + "_types"] = [k % ncoef for k in range(len(terms))]
                if kind != "angle":
                    spec[kind + "_coeffs"] = ["%s %d.5 # t%d" % (kind, r, r) for r in range(ncoef)] if terms else []
                if kind in ("bond", "dihedral", "improper") and terms:
                    spec["extra_%s_labels" % kind] = ["_x_%s" % kind]
                    spec["extra_%s_fields" % kind] = [["%s%d" % (kind[0], k)] for k in range(len(terms))]
            out.append((shape, spec))
    return out


def enum_cases(tier, seed):
    nmax = 5 if tier == "quick" else 6
    cases = []
    for shape, spec in family(nmax):
        n = len(spec["pos"])
        for r in range(1, n + 1):
            for sub in itertools.combinations(range(n), r):
                orders = {tuple(sub), tuple(reversed(sub))}
                sh = list(sub)
                # a fixed shuffle
                sh = sh[1::2] + sh[0::2]
                orders.add(tuple(sh))
                for k, o in enumerate(sorted(orders)):
                    cases.append({"spec": spec, "shape": shape, "op": "del", "indices": list(o),
                                  "container": "array" if (k + r) % 3 == 0 else "list"})
        for i in list(range(-n, n)) + [None]:
            cases.append({"spec": spec, "shape": shape, "op": "pop", "index": i})
        if n <= 4:
            for i in range(n):
                for j in range(n - 1):
                    cases.append({"spec": spec, "shape": shape, "op": "del2", "first": [i], "second": [j]})
        if 2 <= n <= 5:
            # copy, delete from the copy, then delete from the original: the two objects must not influence each other
            for i in range(n):
                for j in range(n):
                    cases.append({"spec": spec, "shape": shape, "op": "copydel", "first": [i], "second": [j]})
    return cases


def do_delete(a, indices, container="list"):
    idx = list(indices) if container == "list" else np.array(indices, dtype=int)
    with silenced():
        del a[idx]


def oracle(case, stats):
    spec = case["spec"]
    m = M.model_from_spec(spec)
    try:
        a = M.build(spec)
    except Exception as e:
        raise Violation("exception-in-construction", "%s: %r" % (type(e).__name__, e))
    n = len(spec["pos"])
    op = case["op"]
    try:
        if op == "del":
            do_delete(a, case["indices"], case.get("container", "list"))
            want = M.m_delete(m, case["indices"])
            what = "after del atoms[%r]" % (case["indices"],)
        elif op == "del2":
            do_delete(a, case["first"])
            do_delete(a, case["second"])
            want = M.m_delete(M.m_delete(m, case["first"]), case["second"])
            what = "after del atoms[%r]; del atoms[%r]" % (case["first"], case["second"])
        elif op == "copydel":
            with silenced():
                b = a.copy()
            do_delete(b, case["first"])
            gotb = M.resolve(b, "copy after del copy[%r]" % (case["first"],))
            wantb = M.m_delete(m, case["first"])
            M.compare_atoms(gotb["atoms"], wantb["atoms"], "copy after del copy[%r]" % (case["first"],), pos_tol=0.0, ordered=True)
            M.compare_terms(gotb["terms"], wantb["terms"], "copy after del copy[%r]" % (case["first"],))
            got0 = M.resolve(a, "original after deleting atoms %r from its copy" % (case["first"],))
            M.compare_atoms(got0["atoms"], m["atoms"], "original after deleting atoms %r from its copy" % (case["first"],), pos_tol=0.0, ordered=True)
            M.compare_terms(got0["terms"], m["terms"], "original after deleting atoms %r from its copy" % (case["first"],))
            do_delete(a, case["second"])
            want = M.m_delete(m, case["second"])
            what = "original after del copy[%r]; del original[%r]" % (case["first"], case["second"])
        else:
            i = case["index"]
            with silenced():
                if i is None:
                    a.pop()
                else:
                    a.pop(i)
            k = n - 1 if i is None else (i + n if i < 0 else i)
            want = M.m_delete(m, [k])
            what = "after pop(%s)" % ("" if i is None else i)
    except Violation:
        raise
    except Exception as e:
        raise Violation("exception-in-delete", "%s %r: %s: %r" % (op, case.get("indices", case.get("index")), type(e).__name__, e))
    got = M.resolve(a, what)
    M.compare_atoms(got["atoms"], want["atoms"], what, pos_tol=0.0, ordered=True)
    M.compare_terms(got["terms"], want["terms"], what)
    # classification
    removed = sum(len(m["terms"][k]) - len(want["terms"][k]) for k in M.KINDS)
    survived = sum(len(want["terms"][k]) for k in M.KINDS)
    stats.count("op:" + op)
    if "shape" in case:
        stats.count("shape:" + case["shape"])
    dele = case.get("indices") or case.get("first") or [0]
    shifted = any(True for k in M.KINDS for t in want["terms"][k]) and min(dele) < n - 1
    stats.count("terms-removed:%s" % (removed > 0))
    stats.count("terms-survive:%s" % (survived > 0))
    if 0 < len(want["atoms"]) < n and removed > 0 and survived > 0 and shifted:
        stats.mark_nontrivial([case.get("shape"), op, case.get("indices", case.get("index", case.get("first"))), case.get("second"), n,
                               case.get("container"), spec["charges"][:2], len(spec["bonds"])])


@st.composite
def random_case(draw, tier="quick"):
    spec = draw(gen_atoms.typed_structure(min_atoms=2, max_atoms=12 if tier == "quick" else 40, max_terms=8, dups=True))
    if draw(hperm.integers(0, 11)) == 0:
        spec = gen_atoms.inflate(spec, draw(st.sampled_from([150, 300])) // len(spec["pos"]) + 1)
    sparse = False
    if len(spec["pos"]) <= 40 and draw(hperm.integers(0, 11)) == 0:
        # a small bonded fragment somewhere in a long list of plain atoms, and many deletions spread over the whole list
        sparse = True
        spec = gen_atoms.pad(spec, draw(st.sampled_from([0, 100, 300, 700])), draw(st.sampled_from([40, 200, 500])))
    n = len(spec["pos"])
    if sparse and n >= 320 and draw(hperm.integers(0, 2)) == 0:
        # hundreds of deletions in one call (a solvent stripped from around a fragment): everything goes except the
        # fragment (minus up to two of its atoms) and a handful of plain atoms, so that surviving terms have 256+ deleted
        # atoms below them
        frag = [i for i in range(n) if any(i in t for kind in M.KINDS for t in spec[kind + "s"])]
        keep = set(frag) | set(draw(st.sets(hperm.integers(0, n - 1), min_size=0, max_size=12)))
        for _ in range(draw(hperm.integers(0, 2))):
            if frag:
                keep.discard(frag[draw(hperm.integers(0, len(frag) - 1))])
        sub = [i for i in range(n) if i not in keep] or [0]
        if draw(st.booleans()):
            sub = sub[::-1]
        k = len(sub)
    elif sparse:
        sub = sorted(draw(st.sets(hperm.integers(0, n - 1), min_size=16, max_size=40)))
        if draw(st.booleans()):
            sub = [sub[i] for i in draw(hperm.permutations(range(len(sub))))]
        k = len(sub)
    elif n > 60:
        # a few deletions spread over a large structure, always including high indices
        sub = sorted(draw(st.sets(hperm.integers(0, n - 1), min_size=1, max_size=6)) | {n - 1 - draw(hperm.integers(0, 3))})
        sub = [sub[i] for i in draw(hperm.permutations(range(len(sub))))]
        k = len(sub)
    else:
        k = draw(hperm.integers(1, n))
        sub = list(draw(hperm.permutations(range(n))))[:k]
    op = draw(st.sampled_from(["del", "del", "del", "pop", "del2", "copydel"]))
    case = {"spec": spec, "op": op}
    if op == "del":
        case["indices"] = sub
        case["container"] = draw(st.sampled_from(["list", "array"]))
    elif op == "pop":
        case["index"] = draw(st.sampled_from([None] + list(range(-n, n))))
    elif op == "copydel":
        case["first"] = sub[:max(1, k // 2)]
        case["second"] = sorted(draw(st.sets(hperm.integers(0, n - 1), min_size=1, max_size=min(n, 4))))
    else:
        case["first"] = sub[:max(1, k // 2)]
        rest = n - len(case["first"])
        if rest < 1:
            case["first"] = sub[:1]
            rest = n - 1
        if rest < 1:
            case["op"] = "del"
            case["indices"] = sub[:1]
        else:
            case["second"] = list(draw(hperm.permutations(range(rest))))[:draw(hperm.integers(1, rest))] if rest <= 60 else \
                sorted(draw(st.sets(hperm.integers(0, rest - 1), min_size=1, max_size=4)))
    return case


def random_oracle(case, stats):
    oracle(case, stats)
    stats.count("atoms:%s" % ("<=40" if len(case["spec"]["pos"]) <= 40 else "128+" if len(case["spec"]["pos"]) >= 128 else "41-127"))
    gen_atoms.spec_stats(case["spec"], stats)
    nterms = sum(len(case["spec"][k + "s"]) for k in M.KINDS)
    if len(case["spec"]["pos"]) >= 128 and nterms * 8 < len(case["spec"]["pos"]):
        stats.count("large-with-sparse-topology")
    if len(case.get("indices") or case.get("first") or []) >= 256:
        stats.count("256+-atoms-deleted-in-one-call")


PARTS = [
    EnumPart("exhaustive-small", enum_cases, oracle, chunk=500),
    HypPart("random", lambda tier: random_case(tier), random_oracle, {"quick": 6000, "thorough": 40000}),
    FuzzPart("coverage-guided-random", "random", runs=5000),
]
