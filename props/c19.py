"""C19 — term enumeration is complete and term typing depends only on UFF types."""
import itertools
import re

import numpy as np
from hypothesis import strategies as st

from mv import hperm

from mv.quiet import silenced
from mv.runner import FuzzPart, HypPart, Violation

PROPERTY = "C19"
RULE = ("Hypothesis-generated bond graphs on 2-14 nodes without three-membered rings in which every node has a bond: "
        "trees, chains, stars (metal nodes up to degree 8), rings of 4-8, fused / spiro / linked ring assemblies "
        "(four-membered M2O2 rhombi included), disconnected unions; bond list in random order and direction; UFF type "
        "per atom from a small per-case palette (so equal-up-to-reversal sequences are frequent, incl. sequences with "
        "equal ends and different centres); a random renaming permutation; permuted and reversed term lists; "
        "exclusion sets. Oracle: brute-force enumeration of angles (unordered neighbour pairs) and dihedrals (chains "
        "i-j-k-l around every bond) each exactly once; typing partition equals 'same sequence up to reversal' (+ equal "
        "torsion count for dihedrals); coefficient text of every term equals the formatted parameters of its own "
        "sequence; undefined torsions dropped and only they; exclusion honoured; per-term coefficients invariant under "
        "renaming and list reordering; retype/pair-coefficient tables agree with per-atom UFF types. Non-trivial = "
        "graph with >= 1 dihedral and >= 2 terms of equal type sequence listed in opposite directions; distinct by hash.")
RULE += (" Since rounds 9-10: One bond list / array object is enumerated, relisted in place, rewired in place and enumerated after each edit; the same Atoms object is retyped three times (the drawn typing, the same types on other atoms, fewer types).")
ASSUMPTIONS = ["expected coefficients come from the harness' own UFF formulas (mv/ref_uff.py), which C18 checks against mofun",
               "the torsion count M of a dihedral is the number of dihedrals in the list handed to the typing function "
               "that share its central bond (counted before exclusion)"]

COMMON = ["C_3", "C_R", "C_2", "C_1", "N_3", "N_R", "N_2", "N_1", "O_3", "O_R", "O_2", "O_1", "H_", "S_3+2", "Cu3+1",
          "Zr3+4", "Zn3+2", "Cu4+2", "O_3_z", "F_", "P_3+3"]


def canon(t):
    t = tuple(int(x) for x in t)
    return min(t, t[::-1])


def seqkey(seq):
    seq = tuple(seq)
    return min(seq, seq[::-1])


@st.composite
def graph(draw):
    """edges over nodes 0..n-1, every node degree >= 1, no triangles"""
    n_target = draw(hperm.integers(2, 14))
    edges = set()
    adj = {}
    n = 0

    def add_edge(u, v):
        edges.add((min(u, v), max(u, v)))
        adj.setdefault(u, set()).add(v)
        adj.setdefault(v, set()).add(u)

    def new_node():
        nonlocal n
        n += 1
        return n - 1

    kinds = []
    while n < n_target:
        room = n_target - n
        kind = draw(st.sampled_from(["tree", "chain", "star", "ring", "ring", "attach", "attach", "fuse", "spiro"]))
        if kind in ("tree", "chain", "star") and room >= 2:
            k = draw(hperm.integers(2, min(room, 9)))
            nodes = [new_node() for _ in range(k)]
            for i in range(1, k):
                if kind == "chain":
                    p = nodes[i - 1]
                elif kind == "star":
                    p = nodes[0]
                else:
                    p = nodes[draw(hperm.integers(0, i - 1))]
                add_edge(p, nodes[i])
            kinds.append(kind)
        elif kind == "ring" and room >= 4:
            k = draw(hperm.integers(4, min(room, 8)))
            nodes = [new_node() for _ in range(k)]
            for i in range(k):
                add_edge(nodes[i], nodes[(i + 1) % k])
            kinds.append("ring%d" % k)
        elif kind == "attach" and n >= 2 and room >= 1:
            # grow a substituent on an existing node (links components' sizes, branched centres)
            p = draw(hperm.integers(0, n - 1))
            add_edge(p, new_node())
            kinds.append("attach")
        elif kind == "fuse" and n >= 2 and room >= 2 and edges:
            # a new ring sharing an existing edge (fused rings), size >= 4
            u, v = draw(st.sampled_from(sorted(edges)))
            k = draw(hperm.integers(2, min(room, 4)))
            nodes = [new_node() for _ in range(k)]
            add_edge(u, nodes[0])
            for i in range(1, k):
                add_edge(nodes[i - 1], nodes[i])
            add_edge(nodes[-1], v)
            kinds.append("fused%d" % (k + 2))
        elif kind == "spiro" and n >= 1 and room >= 3:
            u = draw(hperm.integers(0, n - 1))
            k = draw(hperm.integers(3, min(room, 5)))
            nodes = [new_node() for _ in range(k)]
            add_edge(u, nodes[0])
            for i in range(1, k):
                add_edge(nodes[i - 1], nodes[i])
            add_edge(nodes[-1], u)
            kinds.append("spiro%d" % (k + 1))
        elif room == 1 and n >= 1:
            add_edge(draw(hperm.integers(0, n - 1)), new_node())
            kinds.append("attach")
        elif n == 0:
            a, b = new_node(), new_node()
            add_edge(a, b)
            kinds.append("chain")
    # extra ring closures that create no triangle
    for _ in range(draw(hperm.integers(0, 2))):
        u = draw(hperm.integers(0, n - 1))
        v = draw(hperm.integers(0, n - 1))
        if u != v and v not in adj[u] and not (adj[u] & adj[v]):
            add_edge(u, v)
            kinds.append("closure")
    # random relabelling, order and direction of the bond list
    perm = list(draw(hperm.permutations(range(n))))
    elist = [(perm[u], perm[v]) for u, v in sorted(edges)]
    elist = [elist[i] for i in draw(hperm.permutations(range(len(elist))))]
    flips = draw(st.lists(st.booleans(), min_size=len(elist), max_size=len(elist)))
    elist = [[v, u] if f else [u, v] for (u, v), f in zip(elist, flips)]
    return n, elist, kinds


@st.composite
def case(draw):
    from mofun.uff4mof import UFF4MOF
    n, bonds, kinds = draw(graph())
    allt = [t for t in UFF4MOF if t not in ("Du", "Lw6+3")]
    palette = list(dict.fromkeys(draw(st.lists(st.sampled_from(COMMON + COMMON + allt), min_size=1, max_size=5))))
    types = [draw(st.sampled_from(palette)) for _ in range(n)]
    excl_k = draw(st.sampled_from([None, None, 0, 1, 2, 3, 4, 5, 8]))
    exclude = None if excl_k is None else sorted(draw(st.sets(hperm.integers(0, n - 1), min_size=min(excl_k, n), max_size=min(excl_k, n))))
    return {"n": n, "bonds": bonds, "types": types, "kinds": kinds, "exclude": exclude,
            "rename": list(draw(hperm.permutations(range(n)))),
            "shuffle_seed": draw(hperm.integers(0, 10 ** 6)),
            "rules": draw(st.sampled_from([None, None, "azido", "resonant"])),
            "excl_form": draw(st.sampled_from(["set", "set", "frozenset"]))}


RULES = {None: None, "azido": [({"N_1"}, 2), ({"N_1", "N_2"}, 2)], "resonant": [({"C_R", "O_2"}, 1.5), ({"C_R", "N_R"}, 1.5)]}


def brute_terms(n, bonds):
    adj = [[False] * n for _ in range(n)]
    for u, v in bonds:
        adj[u][v] = adj[v][u] = True
    angles = set()
    for a, j, b in itertools.permutations(range(n), 3):
        if adj[a][j] and adj[j][b]:
            angles.add(canon((a, j, b)))
    dihedrals = set()
    for i, j, k, l in itertools.permutations(range(n), 4):
        if adj[i][j] and adj[j][k] and adj[k][l]:
            dihedrals.add(canon((i, j, k, l)))
    return angles, dihedrals


def check_enumeration(what, got, want, bonds):
    rows = [canon(t) for t in np.asarray(got).reshape(-1, 3 if what == "angle" else 4)] if len(got) else []
    for r in rows:
        if rows.count(r) > 1:
            raise Violation("duplicate-" + what, "%s %r enumerated %d times from bonds %r" % (what, r, rows.count(r), bonds))
    s = set(rows)
    if s != want:
        miss, extra = sorted(want - s), sorted(s - want)
        raise Violation(what + "-enumeration", "bonds %r: missing %r, spurious %r" % (bonds, miss[:4], extra[:4]))


def shuffled(terms, seed, salt):
    import random
    rng = random.Random(seed * 31 + salt)
    terms = [list(t) for t in terms]
    rng.shuffle(terms)
    return [t[::-1] if rng.random() < 0.5 else t for t in terms]


def make_atoms(n, bonds, angles, dihedrals):
    from mofun import Atoms
    with silenced():
        return Atoms(elements=["C"] * n, positions=[[float(i), 0.0, 0.0] for i in range(n)],
                     bonds=[list(b) for b in bonds], bond_types=[0] * len(bonds),
                     angles=[list(a) for a in angles], angle_types=[0] * len(angles),
                     dihedrals=[list(d) for d in dihedrals], dihedral_types=[0] * len(dihedrals))


def parse_coeff(text):
    body, _, comment = text.partition("#")
    toks = body.split()
    nums = []
    for t in toks:
        try:
            nums.append(float(t))
        except ValueError:
            nums.append(t)
    return nums, comment.split()


def numbers_equal(a, b):
    if len(a) != len(b):
        return False
    for x, y in zip(a, b):
        if isinstance(x, str) or isinstance(y, str):
            if x != y:
                return False
        elif abs(x - y) > 2e-6 * max(1.0, abs(x)):
            return False
    return True


def typed_terms(c, n, bonds, angles, dihedrals, types, exclude, rules, reuse=None):
    """runs the three typing functions; returns per kind a dict canonical-term -> (type id, coefficient text), or the
    exception raised"""
    from mofun import rough_uff as U
    a = make_atoms(n, bonds, angles, dihedrals) if reuse is None else reuse
    if reuse is not None:
        a.bonds, a.angles, a.dihedrals = np.array(bonds), np.array(angles).reshape(-1, 3), np.array(dihedrals).reshape(-1, 4)
    # the exclusion set is passed as a set or as a frozenset (an immutable set is the natural form for a fixed selection)
    excl = None if exclude is None else (frozenset(exclude) if c.get("excl_form") == "frozenset" else set(exclude))
    try:
        with silenced():
            U.assign_bond_types(a, types, bond_order_rules=rules, exclude=excl)
            U.assign_angle_types(a, types, bond_order_rules=rules, exclude=excl)
            U.assign_dihedral_types(a, types, bond_order_rules=rules, exclude=excl)
    except Exception as e:
        return None, e
    out = {}
    for kind, terms, tids, coeffs in (("bond", a.bonds, a.bond_types, a.bond_type_coeffs),
                                      ("angle", a.angles, a.angle_types, a.angle_type_coeffs),
                                      ("dihedral", a.dihedrals, a.dihedral_types, a.dihedral_type_coeffs)):
        d = {}
        terms = [canon(t) for t in terms]
        if len(terms) != len(tids):
            raise Violation("types-length", "%d %ss but %d type ids" % (len(terms), kind, len(tids)))
        for t, tid in zip(terms, tids):
            if not 0 <= int(tid) < len(coeffs):
                raise Violation("type-id-range", "%s %r has type %r but there are %d coefficient rows" % (kind, t, tid, len(coeffs)))
            if t in d:
                raise Violation("duplicate-term-after-typing", "%s %r" % (kind, t))
            d[t] = (int(tid), str(coeffs[int(tid)]))
        out[kind] = d
        out[kind + "_ntypes"] = len(coeffs)
    out["_atoms"] = a
    return out, None


def expected_text(kind, seq, M, rules):
    """formatted parameters of a sequence, computed with the harness' own implementation of the UFF formulas (C18 checks
    that mofun's parameter functions agree with it); raises for an unsupported torsion, None for an undefined one"""
    from mofun.uff4mof import UFF4MOF, MAIN_GROUP_ELEMENTS
    from mv import ref_uff
    if kind == "bond":
        return "%10.6f %10.6f" % ref_uff.bond(UFF4MOF, *seq, rules=rules)
    if kind == "angle":
        p = ref_uff.angle(UFF4MOF, *seq, rules=rules)
        return ("%s %10.6f %10.6f %10.6f %10.6f" % p) if p[0] == "fourier" else ("%s %10.6f %d %d" % p)
    p = ref_uff.torsion(UFF4MOF, *seq, M=M, rules=rules, main_group=tuple(MAIN_GROUP_ELEMENTS))
    return None if p is None else "%s %10.6f %d %d" % p


def check_typing(c, out, n, bonds, angles, dihedrals, types, exclude, rules, label):
    excl = set(exclude) if exclude is not None else None
    Mcount = {}
    for d in dihedrals:
        k = canon((d[1], d[2]))
        Mcount[k] = Mcount.get(k, 0) + 1
    for kind, terms, size in (("bond", bonds, 2), ("angle", angles, 3), ("dihedral", dihedrals, 4)):
        got = out[kind]
        want = {}
        for t in terms:
            t = canon(t)
            if excl is not None and len(excl) >= size and set(t) <= excl:
                continue
            seq = tuple(types[i] for i in t)
            M = Mcount[canon((t[1], t[2]))] if kind == "dihedral" else None
            try:
                txt = expected_text(kind, seq, M, rules)
            except Exception:
                raise Violation("typing-should-have-raised", "%s: %s %r with sequence %r has no supported parameters but the "
                                "typing function returned" % (label, kind, t, seq))
            if txt is None:
                continue            # undefined torsion: must be dropped
            want[t] = (seqkey(seq), M, txt)
        if set(got) != set(want):
            miss, extra = sorted(set(want) - set(got)), sorted(set(got) - set(want))
            raise Violation(kind + "-set-after-typing", "%s: %ss missing %r / unexpected %r (exclusion %r; undefined torsions "
                            "must be dropped and only they)" % (label, kind, miss[:3], extra[:3], exclude))
        # partition
        by_type, by_key = {}, {}
        for t, (tid, text) in got.items():
            key = (want[t][0], want[t][1])
            by_type.setdefault(tid, set()).add(key)
            by_key.setdefault(key, set()).add(tid)
        for tid, keys in by_type.items():
            if len(keys) > 1:
                raise Violation(kind + "-types-merged", "%s: type %d is shared by different sequences %r" % (label, tid, sorted(keys)))
        for key, tids in by_key.items():
            if len(tids) > 1:
                raise Violation(kind + "-type-split", "%s: sequence %r%s is split over types %r" %
                                (label, key[0], "" if key[1] is None else ", M=%d" % key[1], sorted(tids)))
        # coefficients
        for t, (tid, text) in got.items():
            nums, names = parse_coeff(text)
            wnums, _ = parse_coeff(want[t][2])
            if not numbers_equal(nums, wnums):
                raise Violation(kind + "-coefficients", "%s: %s %r (sequence %r%s) has coefficients %r, its own parameters are %r" %
                                (label, kind, t, want[t][0], "" if want[t][1] is None else ", M=%d" % want[t][1], text, want[t][2]))
            # the comment is not part of the statement; it is checked only when it has the current shape (one UFF type
            # name per atom of the term, optionally M=<n>), so that a change of the comment format alone is no alarm
            from mofun.uff4mof import UFF4MOF
            seqnames = [x for x in names if not x.startswith("M=")]
            if len(seqnames) == len(t) and all(x in UFF4MOF for x in seqnames) and seqkey(seqnames) != want[t][0]:
                raise Violation(kind + "-coefficient-comment", "%s: %s %r labelled %r, sequence is %r" % (label, kind, t, names, want[t][0]))
            if kind == "dihedral" and any(x.startswith("M=") for x in names) and ("M=%d" % want[t][1]) not in names:
                raise Violation("dihedral-coefficient-comment", "%s: %r labelled %r, M is %d" % (label, t, names, want[t][1]))
        if out[kind + "_ntypes"] != len(by_type):
            raise Violation(kind + "-unused-types", "%s: %d coefficient rows for %d types in use" % (label, out[kind + "_ntypes"], len(by_type)))
    return Mcount


def oracle(c, stats):
    from mofun import rough_uff as U
    n, bonds, types = c["n"], [tuple(b) for b in c["bonds"]], c["types"]
    rules = RULES[c["rules"]]
    want_angles, want_dihedrals = brute_terms(n, bonds)
    with silenced():
        got_angles = U.calc_angles([list(b) for b in bonds])
        got_dihedrals = U.calc_dihedrals([list(b) for b in bonds])
    check_enumeration("angle", got_angles, want_angles, bonds)
    check_enumeration("dihedral", got_dihedrals, want_dihedrals, bonds)
    # one bond list object (list of lists / integer array) enumerated, rewritten in place - relisted in another order and
    # direction, then rewired to the renamed graph - and enumerated again: the result follows the present contents
    relisted = [tuple(b[::-1]) if (k + c["shuffle_seed"]) % 2 else tuple(b) for k, b in enumerate(shuffled(bonds, c["shuffle_seed"], 6))]
    rewired = [(c["rename"][u], c["rename"][v]) for u, v in bonds]
    for form in ("list", "array"):
        obj = [list(b) for b in bonds] if form == "list" else np.array(bonds, dtype=int).reshape(-1, 2)
        with silenced():
            U.calc_angles(obj)
            U.calc_dihedrals(obj)
        for label, content in (("relisted in place", relisted), ("rewired in place", rewired)):
            for k, b in enumerate(content):
                obj[k][0], obj[k][1] = b[0], b[1]
            wa, wd = brute_terms(n, content)
            with silenced():
                ga = U.calc_angles(obj)
                gd = U.calc_dihedrals(obj)
            try:
                check_enumeration("angle", ga, wa, content)
                check_enumeration("dihedral", gd, wd, content)
            except Violation as v:
                raise Violation(v.kind + "-after-in-place-edit", "bond %s %s after an earlier enumeration: %s" % (form, label, v.detail))
    stats.count("bond-list-enumerated-again-after-in-place-edit")
    # typing on permuted / reversed term lists
    angles = shuffled(sorted(want_angles), c["shuffle_seed"], 1)
    dihedrals = shuffled(sorted(want_dihedrals), c["shuffle_seed"], 2)
    out1, exc1 = typed_terms(c, n, bonds, angles, dihedrals, types, c["exclude"], rules)
    # renamed copy
    pi = c["rename"]
    rb = [(pi[u], pi[v]) for u, v in shuffled(bonds, c["shuffle_seed"], 3)]
    ra = [[pi[i] for i in t] for t in shuffled(sorted(want_angles), c["shuffle_seed"], 4)]
    rd = [[pi[i] for i in t] for t in shuffled(sorted(want_dihedrals), c["shuffle_seed"], 5)]
    rtypes = [None] * n
    for i in range(n):
        rtypes[pi[i]] = types[i]
    rex = None if c["exclude"] is None else sorted(pi[i] for i in c["exclude"])
    out2, exc2 = typed_terms(c, n, rb, ra, rd, rtypes, rex, rules)
    if (exc1 is None) != (exc2 is None):
        raise Violation("renaming-changes-outcome", "typing %s, after renaming atoms %s" %
                        ("raised %r" % exc1 if exc1 else "succeeded", "raised %r" % exc2 if exc2 else "succeeded"))
    if exc1 is not None:
        # both raise: acceptable only if some dihedral really is unsupported
        unsupported = False
        for d in want_dihedrals:
            try:
                expected_text("dihedral", tuple(types[i] for i in d), 1, rules)
            except Exception:
                unsupported = True
                break
        if not unsupported:
            raise Violation("typing-raised", "%s: %r although every term has supported parameters" % (type(exc1).__name__, exc1))
        stats.count("outcome:unsupported-dihedral")
        return
    Mcount = check_typing(c, out1, n, bonds, angles, dihedrals, types, c["exclude"], rules, "original naming")
    # the same Atoms object typed again with other UFF types (rotated through the palette): nothing may be remembered
    pal = list(dict.fromkeys(types))
    if len(pal) > 1:
        types3 = [pal[(pal.index(t) + 1) % len(pal)] for t in types]
        out3, exc3 = typed_terms(c, n, bonds, angles, dihedrals, types3, c["exclude"], rules, reuse=out1["_atoms"])
        if exc3 is None:
            check_typing(c, out3, n, bonds, angles, dihedrals, types3, c["exclude"], rules, "second typing of the same object with other types")
    check_typing(c, out2, n, rb, ra, rd, rtypes, rex, rules, "renamed")
    inv = {v: k for k, v in enumerate(pi)}      # pi[k] = v  ->  inv[v] = k
    for kind in ("bond", "angle", "dihedral"):
        back = {canon(tuple(inv[i] for i in t)): v for t, v in out2[kind].items()}
        if set(back) != set(out1[kind]):
            raise Violation("renaming-changes-terms", "%s: %r vs %r" % (kind, sorted(out1[kind])[:5], sorted(back)[:5]))
        for t, (tid, text) in out1[kind].items():
            n1, c1 = parse_coeff(text)
            n2, c2 = parse_coeff(back[t][1])
            if not numbers_equal(n1, n2) or seqkey([x for x in c1 if not x.startswith("M=")]) != seqkey([x for x in c2 if not x.startswith("M=")]) \
                    or [x for x in c1 if x.startswith("M=")] != [x for x in c2 if x.startswith("M=")]:
                raise Violation("renaming-changes-coefficients", "%s %r: %r vs %r after renaming" % (kind, t, text, back[t][1]))
    # retype + pair coefficients
    from mofun.atomic_masses import ATOMIC_MASSES
    a = make_atoms(n, bonds, [], [])

    def check_retyped(types, what):
        labels, els, masses = list(a.atom_type_labels), list(a.atom_type_elements), list(a.atom_type_masses)
        if not (len(labels) == len(els) == len(masses) == len(a.pair_coeffs)):
            raise Violation("retype-table-lengths", "%s: %d labels, %d elements, %d masses, %d pair rows" % (what, len(labels), len(els), len(masses), len(a.pair_coeffs)))
        if len(a.atom_types) != n:
            raise Violation("retype-atom-types-length", "%s: %d atom types for %d atoms" % (what, len(a.atom_types), n))
        for i in range(n):
            t = int(a.atom_types[i])
            el = types[i][0:2].replace("_", "")
            if not 0 <= t < len(labels):
                raise Violation("retype", "%s: atom %d has type id %d, table has %d rows" % (what, i, t, len(labels)))
            if labels[t] != types[i] or els[t] != el or abs(masses[t] - ATOMIC_MASSES[el]) > 1e-12:
                raise Violation("retype", "%s: atom %d with UFF type %s resolves to label %r element %r mass %r" % (what, i, types[i], labels[t], els[t], masses[t]))
            nums, names = parse_coeff(str(a.pair_coeffs[t]))
            want = U.pair_coeffs(types[i])
            if not numbers_equal(nums, [float("%10.6f" % want[0]), float("%10.6f" % want[1])]) or names != [types[i]]:
                raise Violation("pair-coeffs-row", "%s: atom %d (%s): row %r, pair_coeffs gives %r" % (what, i, types[i], str(a.pair_coeffs[t]), want))
        if len(set(labels)) != len(labels):
            raise Violation("retype-duplicate-type", "%s: labels %r" % (what, labels))

    with silenced():
        U.retype_atoms_from_uff_types(a, list(types))
        U.assign_pair_coeffs(a)
    check_retyped(types, "first retyping")
    # the same object typed again: the same set of UFF types handed out to other atoms (a corrected typing), then a
    # typing that uses only some of them
    types2 = [types[pi[i]] for i in range(n)]
    with silenced():
        U.retype_atoms_from_uff_types(a, list(types2))
        U.assign_pair_coeffs(a)
    check_retyped(types2, "second retyping of the same object, same set of types on other atoms")
    if types2 != list(types):
        stats.count("retyped-again-with-permuted-types")
    types3 = [types[0] if i % 2 else types[i] for i in range(n)]
    with silenced():
        U.retype_atoms_from_uff_types(a, list(types3))
        U.assign_pair_coeffs(a)
    check_retyped(types3, "third retyping of the same object")
    # classification
    for k in set(c["kinds"]):
        stats.count("graph:" + re.sub(r"\d+", "", k))
    stats.count("rings:%s" % ("yes" if any(k.startswith(("ring", "fused", "spiro", "closure")) for k in c["kinds"]) else "no"))
    stats.count("ring4:%s" % any(k in ("ring4", "fused4", "spiro4") for k in c["kinds"]))
    stats.count("exclude:%s" % ("none" if c["exclude"] is None else len(c["exclude"])))
    if c["exclude"] is not None:
        stats.count("exclude-passed-as:%s" % c.get("excl_form", "set"))
    stats.count("M-values:%s" % ",".join(str(m) for m in sorted(set(Mcount.values()))[:4]))
    stats.count("dihedrals:%s" % ("0" if not want_dihedrals else "1-9" if len(want_dihedrals) < 10 else "10+"))
    # opposite-direction listing of equal sequences
    opp = False
    for terms in (angles, dihedrals, [list(b) for b in bonds]):
        seen = {}
        for t in terms:
            seq = tuple(types[i] for i in t)
            if seq != seq[::-1] and seq[::-1] in seen:
                opp = True
            seen[seq] = True
    stats.count("opposite-direction-pair:%s" % opp)
    if want_dihedrals and opp:
        stats.mark_nontrivial(c)


PARTS = [
    HypPart("graphs", lambda tier: case(), oracle, {"quick": 12000, "thorough": 80000}),
    FuzzPart("coverage-guided-graphs", "graphs", runs=5000),
]
