"""C14 — elements inferred from masses are the nearest element within tolerance."""
import io

from hypothesis import strategies as st

from mv import hperm

from mv.runner import EnumPart, FuzzPart, HypPart, Violation

PROPERTY = "C14"
RULE = ("Exhaustive sweep: every entry of the mass table x probe masses {m, m+-tol-+d, m+-tol+-d, midpoints to both "
        "mass-neighbours, gaps below/above the table} x tolerances {0.01 (helper default), 0.1 (loader default), 1e-3, "
        "0.5, 1, 2}, through guess_elements_from_masses and through load_lmpdat of a generated file; write->read of "
        "every element; Hypothesis lists mixing guessable and unguessable masses with drawn tolerances. Oracle: "
        "candidates = {el : |m - m_el| < tol}; result must be a candidate of minimal distance (ties/boundary within "
        "1e-9: either); no candidate => helper raises and loader uses type numbers for ALL types. Non-trivial = the "
        "probe mass lies within 3*tol of a table entry but is not exactly a table entry, or the list contains an "
        "unguessable mass; distinct by (masses, tol, route).")
ASSUMPTIONS = ["the mass table ATOMIC_MASSES is data taken from the module under test",
               "boundary cases |m-m_el| within 1e-9 of tol accept either answer"]

DELTAS = (1e-9, 1e-6, 1e-3)
TOLS = (0.01, 0.1, 1e-3, 0.5, 1.0, 2.0)


def _table():
    from mofun.atomic_masses import ATOMIC_MASSES
    return dict(ATOMIC_MASSES)


def spec(mass, tol, table):
    """returns (must_be_one_of, may_be_one_of) ; empty may => must raise"""
    dists = {el: abs(mass - m) for el, m in table.items()}
    sure = {el for el, d in dists.items() if d < tol - 1e-9}
    maybe = {el for el, d in dists.items() if d < tol + 1e-9}
    if not maybe:
        return set(), set(), False
    dmin = min(dists[el] for el in maybe)
    nearest = {el for el in maybe if dists[el] <= dmin + 1e-9}
    # if the only candidates are boundary ones, raising is acceptable too
    may_raise = len(sure) == 0
    return nearest, maybe, may_raise


def helper_oracle(case, stats):
    from mofun.helpers import guess_elements_from_masses
    table = _table()
    masses, tol = case["masses"], case["tol"]
    if case.get("default_tol"):
        import inspect
        tol = inspect.signature(guess_elements_from_masses).parameters["max_delta"].default
        case = dict(case, tol=tol)
    expected = [spec(m, tol, table) for m in masses]
    must_raise = any(len(e[1]) == 0 for e in expected)
    may_raise = must_raise or any(e[2] for e in expected)
    try:
        if case.get("default_tol"):
            got = guess_elements_from_masses(masses)
        else:
            got = guess_elements_from_masses(masses, max_delta=tol)
    except Exception as e:
        if not may_raise:
            raise Violation("raised-for-guessable", "masses=%r tol=%r raised %r" % (masses, tol, e))
        got = None
    if got is not None:
        if must_raise:
            bad = [m for m, e in zip(masses, expected) if len(e[1]) == 0]
            raise Violation("invented-element", "masses=%r tol=%r: mass(es) %r are within tolerance of no element "
                            "but helper returned %r" % (masses, tol, bad, got))
        if len(got) != len(masses):
            raise Violation("length", "got %r for %r" % (got, masses))
        for m, g, (nearest, maybe, _) in zip(masses, got, expected):
            if g not in nearest:
                raise Violation("not-nearest", "mass=%r tol=%r: got %r, nearest within tolerance is %r" %
                                (m, tol, g, sorted(nearest)))
    _classify(case, table, stats, "helper")


def _classify(case, table, stats, route):
    tol = case["tol"]
    nt = False
    for m in case["masses"]:
        d = min(abs(m - v) for v in table.values())
        if d == 0:
            stats.count("exact-table-mass")
        elif d < 3 * tol:
            nt = True
            stats.count("within-3tol")
        else:
            stats.count("far-from-table")
        if d >= tol:
            nt = True
    if len(case["masses"]) > 1:
        stats.count("list-len>1")
    stats.count("route:" + route)
    if nt:
        stats.mark_nontrivial([case, route])


def _lmpdat_text(masses, labels=None):
    n = len(masses)
    lines = ["t (written by harness)", "", "%d atoms" % n, "0 bonds", "0 angles", "0 dihedrals", "0 impropers", "",
             "%d atom types" % n, " 0.0 10.0 xlo xhi", " 0.0 10.0 ylo yhi", " 0.0 10.0 zlo zhi", "", "Masses", ""]
    for i, m in enumerate(masses):
        lines.append(" %d %s%s" % (i + 1, repr(float(m)), "   # %s" % labels[i] if labels else ""))
    lines += ["", "Atoms", ""]
    for i in range(n):
        lines.append(" %d 1 %d 0.0 %d.0 0.0 0.0" % (i + 1, i + 1, i))
    return "\n".join(lines) + "\n"


def loader_oracle(case, stats):
    from mofun import Atoms
    table = _table()
    masses, tol = case["masses"], case["tol"]
    if case.get("default_tol"):
        import inspect
        tol = inspect.signature(Atoms.load_lmpdat).parameters["guess_atol"].default
        case = dict(case, tol=tol)
    text = _lmpdat_text(masses, case.get("labels"))
    entry = case.get("entry", "load_lmpdat")
    try:
        if entry == "load-file":
            # the general entry point with an open file; options are passed through to the format's loader
            a = Atoms.load(io.StringIO(text), filetype="lmpdat") if case.get("default_tol") else \
                Atoms.load(io.StringIO(text), filetype="lmpdat", guess_atol=tol)
        elif entry == "load-path":
            import os
            from mv.quiet import workdir
            path = os.path.join(workdir(), "c14.lmpdat")
            with open(path, "w") as f:
                f.write(text)
            a = Atoms.load(path) if case.get("default_tol") else Atoms.load(path, guess_atol=tol)
        elif case.get("default_tol"):
            a = Atoms.load_lmpdat(io.StringIO(text))
        else:
            a = Atoms.load_lmpdat(io.StringIO(text), guess_atol=tol)
    except Exception as e:
        raise Violation("loader-raised", "masses=%r tol=%r via %s: %r" % (masses, tol, entry, e))
    stats.count("entry:" + entry)
    expected = [spec(m, tol, table) for m in masses]
    must_fallback = any(len(e[1]) == 0 for e in expected)
    may_fallback = must_fallback or any(e[2] for e in expected)
    got = list(a.atom_type_elements)
    fallback = [str(i + 1) for i in range(len(masses))]
    if got == fallback and not all(g in table for g in got):
        if not may_fallback:
            raise Violation("fallback-for-guessable", "masses=%r tol=%r gave type numbers %r" % (masses, tol, got))
    else:
        if must_fallback:
            raise Violation("invented-element", "masses=%r tol=%r: some mass matches no element but loader gave %r "
                            "(documented: type numbers for all types)" % (masses, tol, got))
        for m, g, (nearest, maybe, _) in zip(masses, got, expected):
            if g not in nearest:
                raise Violation("not-nearest", "loader: mass=%r tol=%r: got %r, nearest within tolerance is %r" %
                                (m, tol, g, sorted(nearest)))
    if [float(x) for x in a.atom_type_masses] != [float(m) for m in masses]:
        raise Violation("masses-changed", "%r vs %r" % (list(a.atom_type_masses), masses))
    _classify(case, table, stats, "loader")


def roundtrip_oracle(case, stats):
    """write -> read of elements: every element must come back as an element of minimal distance to its printed mass"""
    from mofun import Atoms
    table = _table()
    els = case["elements"]
    a = Atoms(elements=els, positions=[[float(i), 0., 0.] for i in range(len(els))], cell=[[50., 0, 0], [0, 50., 0], [0, 0, 50.]])
    buf = io.StringIO()
    a.save_lmpdat(buf)
    b = Atoms.load_lmpdat(io.StringIO(buf.getvalue()))
    got = list(b.elements)
    for e, g in zip(els, got):
        m = round(table[e], 6)
        nearest, maybe, _ = spec(m, 0.1, table)
        if g not in nearest:
            raise Violation("roundtrip-element-changed", "element %s (mass %r) came back as %s after save_lmpdat/"
                            "load_lmpdat; nearest elements to the printed mass: %s" % (e, table[e], g, sorted(nearest)))
        if len(nearest) == 1 and g != e:
            raise Violation("roundtrip-element-changed", "%s -> %s" % (e, g))
    stats.count("route:roundtrip")
    stats.mark_nontrivial(["rt", els])


def probe_masses(table):
    items = sorted(table.items(), key=lambda kv: kv[1])
    ms = [m for _, m in items]
    out = []
    for tol in TOLS:
        probes = set()
        for i, m in enumerate(ms):
            probes.add(m)
            for d in DELTAS:
                for s in (+1, -1):
                    probes.add(m + s * (tol - d))
                    probes.add(m + s * (tol + d))
            if i + 1 < len(ms):
                probes.add((m + ms[i + 1]) / 2)
                probes.add(m + (ms[i + 1] - m) * 0.25)
                probes.add(m + (ms[i + 1] - m) * 0.75)
        probes |= {ms[0] - tol * 1.5, ms[0] / 2, 0.0, ms[-1] + tol * 1.5, ms[-1] + 50, 1000.0}
        out += [{"masses": [p], "tol": tol} for p in sorted(probes) if p >= 0]
    return out


def helper_cases(tier, seed):
    table = _table()
    cases = probe_masses(table)
    cases += [{"masses": [m], "tol": 0.01, "default_tol": True} for m in table.values()]
    # whole table in one call, in table order and in mass order
    cases.append({"masses": list(table.values()), "tol": 0.01})
    cases.append({"masses": sorted(table.values()), "tol": 0.1})
    return cases


def loader_cases(tier, seed):
    table = _table()
    cases = [c for c in probe_masses(table) if c["tol"] in (0.1, 0.01)]
    cases += [{"masses": [m], "tol": 0.1, "default_tol": True} for m in table.values()]
    ms = list(table.values())
    # mixed lists: guessable + one unguessable in each position
    for i in range(0, len(ms) - 3, 3):
        for bad_at in (0, 1, 2):
            l = ms[i:i + 3]
            l[bad_at] = l[bad_at] + 0.37
            cases.append({"masses": l, "tol": 0.1})
            cases.append({"masses": l, "tol": 0.1, "labels": ["A", "B", "C"]})
    # files with ten and more atom types (two-digit type ids), masses slightly off the table values, table order and reversed
    for i in range(0, len(ms) - 13, 9):
        l = [round(m + 0.03, 6) for m in ms[i:i + 13]]
        cases.append({"masses": l, "tol": 0.1})
        cases.append({"masses": l[::-1], "tol": 0.1, "labels": ["L%d" % k for k in range(13)]})
    cases.append({"masses": [round(m + 0.02, 6) for m in ms], "tol": 0.1})
    # the same through the general entry point Atoms.load (open file / path), with explicit and default tolerance, and with
    # the smallest tolerance there is (0: nothing but an exact table mass can match, so type numbers are used)
    for entry in ("load-file", "load-path", "load_lmpdat"):
        for i in range(0, len(ms) - 3, 11):
            l = [round(m + 0.004, 6) for m in ms[i:i + 3]]
            for tol in (0.0, 0.001, 0.01, 0.1, 0.5):
                cases.append({"masses": l, "tol": tol, "entry": entry})
            cases.append({"masses": l, "tol": 0.1, "default_tol": True, "entry": entry})
    return cases


def roundtrip_cases(tier, seed):
    els = list(_table().keys())
    return [{"elements": [e]} for e in els] + [{"elements": els[i:i + 5]} for i in range(0, len(els), 5)] + \
           [{"elements": ["K", "Ar", "Ca"]}, {"elements": ["Ni", "Co"]}, {"elements": ["I", "Te"]}, {"elements": ["Th", "Pa"]},
            {"elements": ["U", "Np", "Pu"]}, {"elements": ["Bi", "Po"]}]


@st.composite
def random_case(draw):
    table = _table()
    ms = sorted(table.values())
    tol = draw(st.one_of(st.sampled_from([0.01, 0.1]), st.floats(1e-3, 2.0)))
    n = draw(hperm.integers(1, 6))
    masses = []
    for _ in range(n):
        base = draw(st.sampled_from(ms))
        kind = draw(st.sampled_from(["exact", "near", "edge", "far", "uniform"]))
        if kind == "exact":
            m = base
        elif kind == "near":
            m = base + draw(st.floats(-1, 1)) * tol * 0.9
        elif kind == "edge":
            m = base + draw(st.sampled_from([-1, 1])) * tol * (1 + draw(st.floats(-0.05, 0.05)))
        elif kind == "far":
            m = base + draw(st.sampled_from([-1, 1])) * tol * draw(st.floats(1.05, 3))
        else:
            m = draw(st.floats(0.0, 300.0))
        masses.append(max(0.0, m))
    route = draw(st.sampled_from(["helper", "loader", "loader"]))
    case = {"masses": masses, "tol": tol, "route": route}
    if route == "loader":
        case["entry"] = draw(st.sampled_from(["load_lmpdat", "load-file", "load-path"]))
    return case


def random_oracle(case, stats):
    if case["route"] == "helper":
        helper_oracle(case, stats)
    else:
        loader_oracle(case, stats)


PARTS = [
    EnumPart("helper-sweep", helper_cases, helper_oracle, chunk=400),
    EnumPart("loader-sweep", loader_cases, loader_oracle, chunk=400),
    EnumPart("write-read", roundtrip_cases, roundtrip_oracle, chunk=20),
    HypPart("random-lists", lambda tier: random_case(), random_oracle, {"quick": 3000, "thorough": 60000}),
    FuzzPart("coverage-guided-lists", "random-lists", runs=5000),
]
