"""C18 — UFF parameters follow the published formulas for every type combination."""
import math

from mv import ref_uff
from mv.runner import EnumPart, Violation

PROPERTY = "C18"
RULE = ("Enumeration over the 221 UFF/UFF4MOF atom types. Bonds: all 221^2 ordered pairs x bond orders {guessed, 1, 1.5, "
        "2} x three user rule sets (exhaustive in both tiers), pair coefficients for all types. Angles: every central "
        "type x ends (quick: one representative per third-character class + 24 pseudo-random types, squared; thorough: "
        "all 221^2) each evaluated default -> with rules -> default again, plus explicit bond orders. Torsions: all "
        "221^2 central pairs x outer atoms (quick: one representative per third-character class, squared; thorough: all "
        "a1 x 16 a4) x multiplicities {1,2,3,4,6,9}. Oracle: independent re-implementation of the UFF formulas "
        "(mv/ref_uff.py) to 1e-9 relative, style/integers/None/exception status exactly; invariants (finite, K>0, r>0, "
        "Fourier minimum at theta0, barrier >= 0 and proportional to 1/M); reversal symmetry to 1e-9. Every enumerated "
        "tuple is distinct by construction; non-trivial = tuple not of the form (x,x,..,x).")
ASSUMPTIONS = ["the reference shares the reading of the paper/docstrings with the code; its independent value is the "
               "invariants, the reversal relation and mutation detection",
               "parameter table UFF4MOF and MAIN_GROUP_ELEMENTS are data taken from the module under test",
               "'identical under reversal' is read at 1e-9 relative (floating-point association differs in the last bit)"]

RULESETS = [
    None,
    [({"N_1"}, 2), ({"N_1", "N_2"}, 2)],
    [({"C_R", "O_2"}, 1.5), ({"C_R", "C_2"}, 2), ({"O_3", "Zr3+4"}, 0.5)],
    [({"C_R"}, 1), ({"H_", "C_3"}, 2)],
]
MS = [1, 2, 3, 4, 6, 9]


def table():
    from mofun.uff4mof import UFF4MOF, MAIN_GROUP_ELEMENTS
    return UFF4MOF, tuple(MAIN_GROUP_ELEMENTS)


def close(a, b, tol=1e-9):
    if isinstance(a, str) or isinstance(b, str):
        return a == b
    if isinstance(a, int) and isinstance(b, int):
        return a == b
    if not (math.isfinite(a) and math.isfinite(b)):
        return False
    return abs(a - b) <= tol * max(1.0, abs(a), abs(b))


def same(t1, t2, tol=1e-9):
    if t1 is None or t2 is None:
        return t1 is None and t2 is None
    return len(t1) == len(t2) and all(close(x, y, tol) for x, y in zip(t1, t2))


def class_reps(types):
    reps = {}
    for t in types:
        reps.setdefault(t[2] if len(t) > 2 else 0, t)
    return list(reps.values())


def pseudo_random(types, k, salt):
    n = len(types)
    return [types[(salt * 7919 + i * 104729 + 13) % n] for i in range(k)]


# ---------------------------------------------------------------------------------------------------------------------

def bond_cases(tier, seed):
    T, _ = table()
    return [{"i": i} for i in range(len(T))]


def bond_oracle(case, stats):
    from mofun import rough_uff as U
    T, _ = table()
    types = list(T.keys())
    a = types[case["i"]]
    n = 0
    # pair coefficients
    got = U.pair_coeffs(a)
    want = ref_uff.pair(T, a)
    if not same(tuple(got), tuple(want)):
        raise Violation("pair-coeffs", "%s: %r, formulas give %r" % (a, got, want))
    for b in types:
        g = U.guess_bond_order(a, b)
        if g != ref_uff.bond_order(a, b):
            raise Violation("bond-order-guess", "%s-%s guessed %r, documented guess %r" % (a, b, g, ref_uff.bond_order(a, b)))
        for bo in (None, 1, 1.5, 2):
            for rules in (RULESETS if bo is None else [None]):
                n += 1
                got = U.bond_params(a, b, bond_order=bo, bond_order_rules=rules)
                want = ref_uff.bond(T, a, b, bo, rules)
                if not same(got, want):
                    raise Violation("bond-params", "%s-%s bond order %r rules %r: %r, formulas give %r" % (a, b, bo, rules, got, want))
                if not (math.isfinite(got[0]) and math.isfinite(got[1]) and got[0] > 0 and got[1] > 0):
                    raise Violation("bond-invariant", "%s-%s bond order %r: K=%r r=%r" % (a, b, bo, got[0], got[1]))
                rev = U.bond_params(b, a, bond_order=bo, bond_order_rules=rules)
                if not same(got, rev):
                    raise Violation("bond-reversal", "%s-%s: %r vs reversed %r" % (a, b, got, rev))
        # guessed order again after the calls with user rules
        got = U.bond_params(a, b)
        if not same(got, ref_uff.bond(T, a, b)):
            raise Violation("bond-params-history", "%s-%s evaluated again without rules after calls with rules: %r, formulas give %r" %
                            (a, b, got, ref_uff.bond(T, a, b)))
    stats.evaluations += n - 1
    stats.extra_nontrivial += n - len(RULESETS) - 3
    stats.count("bond-evaluations", n)
    if len(stats.samples) < 2:
        stats.samples.append({"bond": [a, types[(case["i"] * 37) % len(types)]], "orders": "guessed,1,1.5,2", "rulesets": len(RULESETS)})


def angle_cases(tier, seed):
    T, _ = table()
    return [{"j": j, "tier": tier, "seed": seed} for j in range(len(T))]


def check_fourier(b, res, T):
    th = math.radians(T[b][ref_uff.THETA0])
    _, K, c0, c1, c2 = res
    e = c0 + c1 * math.cos(th) + c2 * math.cos(2 * th)
    de = -c1 * math.sin(th) - 2 * c2 * math.sin(2 * th)
    d2e = -c1 * math.cos(th) - 4 * c2 * math.cos(2 * th)
    if abs(e) > 1e-9 or abs(de) > 1e-9 or not d2e > 0:
        raise Violation("fourier-minimum", "centre %s: C0,C1,C2=%r do not put a zero-energy minimum at theta0 (E=%g, dE=%g, d2E=%g)" %
                        (b, (c0, c1, c2), e, de, d2e))


def angle_oracle(case, stats):
    from mofun import rough_uff as U
    T, _ = table()
    types = list(T.keys())
    b = types[case["j"]]
    if case["tier"] == "thorough":
        ends = types
    else:
        ends = list(dict.fromkeys(class_reps(types) + pseudo_random(types, 24, case["j"] + case["seed"]) + ["N_1", "N_2", "C_R", "O_2", b]))
    n = 0
    for a in ends:
        for c in ends:
            n += 1
            got = U.angle_params(a, b, c)
            want = ref_uff.angle(T, a, b, c)
            if not same(got, want):
                raise Violation("angle-params", "%s-%s-%s: %r, formulas give %r" % (a, b, c, got, want))
            if not all(math.isfinite(x) for x in got[1:]) or not got[1] > 0:
                raise Violation("angle-invariant", "%s-%s-%s: %r (force constant must be finite and positive)" % (a, b, c, got))
            if got[0] == "fourier":
                check_fourier(b, got, T)
            elif got[0] != "cosine/periodic" or not isinstance(got[2], int) or not isinstance(got[3], int):
                raise Violation("angle-style", "%s-%s-%s: %r" % (a, b, c, got))
            rev = U.angle_params(c, b, a)
            if not same(got, rev):
                raise Violation("angle-reversal", "%s-%s-%s: %r vs reversed %r" % (a, b, c, got, rev))
            # user rules, then defaults again (stale state between calls would show here)
            for rules in RULESETS[1:]:
                g2 = U.angle_params(a, b, c, bond_order_rules=rules)
                w2 = ref_uff.angle(T, a, b, c, rules=rules)
                if not same(g2, w2):
                    raise Violation("angle-params-rules", "%s-%s-%s with rules %r: %r, formulas give %r" % (a, b, c, rules, g2, w2))
            g3 = U.angle_params(a, b, c)
            if not same(g3, want):
                raise Violation("angle-params-history", "%s-%s-%s evaluated again without rules after a call with rules: %r, "
                                "formulas give %r" % (a, b, c, g3, want))
            # bond orders passed explicitly (the documented form: a list of two) but left open (None) for one or both bonds,
            # together with user rules: the open ones are guessed with the rules
            ruled = {a, b, c} & {"N_1", "N_2", "C_R", "O_2", "C_2", "H_", "C_3", "O_3", "Zr3+4"}
            if len(ruled) >= 2 or (n % 5) == 0:
                for rules in RULESETS[1:]:
                    for bos in ([None, None], [None, 2], [1, None]):
                        want_bos = list(bos)
                        try:
                            g5 = U.angle_params(a, b, c, bond_orders=bos, bond_order_rules=rules)
                        except Exception as e:
                            raise Violation("angle-params-raised", "%s-%s-%s bond orders %r with rules %r: %s: %r" %
                                            (a, b, c, want_bos, rules, type(e).__name__, e))
                        w5 = ref_uff.angle(T, a, b, c, orders=want_bos, rules=rules)
                        if not same(g5, w5):
                            raise Violation("angle-params-orders-and-rules", "%s-%s-%s bond orders %r with rules %r: %r, formulas "
                                            "give %r" % (a, b, c, bos, rules, g5, w5))
            if (n % 7) == 0:
                for bos in ([1, 2], [2, 1], [1.5, 1.5], [2, None]):
                    g4 = U.angle_params(a, b, c, bond_orders=bos)
                    w4 = ref_uff.angle(T, a, b, c, orders=bos)
                    if not same(g4, w4):
                        raise Violation("angle-params-orders", "%s-%s-%s bond orders %r: %r, formulas give %r" % (a, b, c, bos, g4, w4))
                    r4 = U.angle_params(c, b, a, bond_orders=[bos[1], bos[0]])
                    if not same(g4, r4):
                        raise Violation("angle-reversal", "%s-%s-%s bond orders %r: %r vs reversed %r" % (a, b, c, bos, g4, r4))
    stats.evaluations += n - 1
    stats.extra_nontrivial += n - 1
    stats.count("angle-evaluations", n)
    stats.count("angle-style:%s" % got[0])
    if len(stats.samples) < 4:
        stats.samples.append({"angle": [ends[0], b, ends[-1]], "ends_per_centre": len(ends)})


def torsion_cases(tier, seed):
    T, _ = table()
    return [{"j": j, "tier": tier, "seed": seed} for j in range(len(T))]


def torsion_oracle(case, stats):
    from mofun import rough_uff as U
    T, main_group = table()
    types = list(T.keys())
    b = types[case["j"]]
    reps = class_reps(types)
    if case["tier"] == "thorough":
        outer1 = types
        outer4 = list(dict.fromkeys(reps + pseudo_random(types, 16 - len(reps), case["j"])))[:16] if len(reps) < 16 else reps
    else:
        outer1 = reps
        outer4 = reps
    n = 0
    ncls = {}

    def call(a, b_, c, d, M, rules=None, bo=None):
        try:
            return U.dihedral_params(a, b_, c, d, num_dihedrals_about_bond=M, bond_order=bo, bond_order_rules=rules), None
        except Exception as e:
            return None, e

    def refcall(a, b_, c, d, M, rules=None, bo=None):
        try:
            return ref_uff.torsion(T, a, b_, c, d, M=M, n=bo, rules=rules, main_group=main_group), None
        except ref_uff.Unsupported as e:
            return None, e

    for c in types:
        for ia, a in enumerate(outer1):
            for idd, d in enumerate(outer4):
                Ms = MS if (ia + idd) % 5 == 0 else [1]
                base = None
                for M in Ms:
                    n += 1
                    got, exc = call(a, b, c, d, M)
                    want, wexc = refcall(a, b, c, d, M)
                    if (exc is None) != (wexc is None):
                        raise Violation("torsion-status", "%s-%s-%s-%s M=%d: mofun %s, documented cases say %s" %
                                        (a, b, c, d, M, "raises %r" % exc if exc else "returns %r" % (got,),
                                         "unsupported (raise)" if wexc else "returns %r" % (want,)))
                    if exc is None and not same(got, want):
                        raise Violation("torsion-params", "%s-%s-%s-%s M=%d: %r, formulas give %r" % (a, b, c, d, M, got, want))
                    if got is not None:
                        if got[0] != "harmonic" or not math.isfinite(got[1]) or got[1] < 0 or got[2] not in (1, -1) or \
                                not isinstance(got[3], int) or got[3] < 1:
                            raise Violation("torsion-invariant", "%s-%s-%s-%s M=%d: %r" % (a, b, c, d, M, got))
                        if M == 1:
                            base = got
                        elif base is not None and not close(got[1] * M, base[1]):
                            raise Violation("torsion-multiplicity", "%s-%s-%s-%s: K(M=%d)=%r is not K(M=1)/M (%r)" % (a, b, c, d, M, got[1], base[1] / M))
                    rgot, rexc = call(d, c, b, a, M)
                    if (rexc is None) != (exc is None) or (exc is None and not same(got, rgot)):
                        raise Violation("torsion-reversal", "%s-%s-%s-%s M=%d: %r / %r vs reversed %r / %r" % (a, b, c, d, M, got, exc, rgot, rexc))
                k = "undefined" if (exc is None and got is None) else "unsupported" if exc else "n=%d,d=%d" % (got[3], got[2])
                ncls[k] = ncls.get(k, 0) + 1
        # bond order handling of the central bond
        for rules in RULESETS[1:]:
            for bo in (None, 2):
                a, d = reps[0], reps[-1]
                # default -> with rules -> default again (state remembered between calls would show here)
                for rr in (None, rules, None):
                    n += 1
                    got, exc = call(a, b, c, d, 2, rules=rr, bo=bo)
                    want, wexc = refcall(a, b, c, d, 2, rules=rr, bo=bo)
                    if (exc is None) != (wexc is None) or (exc is None and not same(got, want)):
                        raise Violation("torsion-params-rules", "%s-%s-%s-%s M=2 rules %r bond order %r (call sequence default, "
                                        "rules, default): %r, formulas give %r" % (a, b, c, d, rr, bo, got, want))
    stats.evaluations += n - 1
    stats.extra_nontrivial += n - 1
    stats.count("torsion-evaluations", n)
    for k, v in ncls.items():
        stats.count("torsion:" + k, v)
    if len(stats.samples) < 5:
        stats.samples.append({"torsion": [outer1[0], b, types[-1], outer4[-1]], "outer1": len(outer1), "outer4": len(outer4), "M": MS})


PARTS = [
    EnumPart("bonds", bond_cases, bond_oracle, chunk=14),
    EnumPart("angles", angle_cases, angle_oracle, exhaustive=lambda tier: tier == "thorough", chunk=14),
    EnumPart("torsions", torsion_cases, torsion_oracle, exhaustive=lambda tier: False, chunk=14),
]
