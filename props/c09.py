"""C09 — Atoms objects stay consistent and type ids keep their meaning (operation histories)."""
import copy
import io
import itertools

import numpy as np
from hypothesis import strategies as st

from mv import hperm
from hypothesis.stateful import RuleBasedStateMachine, initialize, precondition, rule

from mv import gen_atoms, model_atoms as M, ref_lammps
from mv.quiet import silenced
from mv.runner import EnumPart, MachinePart, Violation, jsonable, match_known

PROPERTY = "C09"
RULE = ("Histories of operations on a pool of Atoms objects, each mirrored on a pure-Python resolved-view model "
        "(atom -> label/element/mass/pair text/charge/group/extra fields; term -> tagged atoms + coefficient text): "
        "construct, copy, delete (any subset, all carriers of one term kind, all atoms), pop, subset, extend (default "
        "offsets / explicit offsets / identity maps / after emptying a kind or all atoms), replicate, replace "
        "(single-atom site patterns with typed multi-atom replacements carrying terms), save->load through a LAMMPS "
        "data file. After every step resolve(real) must equal the model, and if the object has an atom and a LAMMPS-"
        "writable cell the written file must be well-formed for an independent reader (declared counts = contents, ids "
        "within declared type counts, coefficient sections with their header line) and read back to the same view. "
        "Engines: Hypothesis RuleBasedStateMachine (random histories) + bounded-exhaustive enumeration of all "
        "sequences up to depth 2 (quick) / 3 (thorough) over a fixed alphabet of 14 symbolic steps on two start "
        "structures. Non-trivial = history of >= 2 steps with a mutating step applied to the result of another; "
        "distinct by hash of the recorded history.")
RULE += (" Since rounds 9-10: Subsets are taken by positions counted from either end, passed as list, tuple, integer array or bare integer; the resolved view also requires .elements to equal the type table looked up through the per-atom types; cells in whole Angstroms are handed over as ints / integer arrays and term tables as column-major arrays now and then.")
ASSUMPTIONS = ["identity of atoms is carried by unique charge tags; after replicate the harness re-tags the image atoms "
               "(identified by position) so that identities stay unique",
               "subset (__getitem__) is documented to drop terms; the model drops them and per-atom extra columns too",
               "elements after a LAMMPS reload follow C14's specification (nearest element within 0.1 of the mass)"]

_TAG = [0]
_GEN = [0]


def fresh_base():
    """tag bases for atoms the harness creates while executing a step (replicate images, inserted atoms, second copies)"""
    _TAG[0] += 1
    return float(100 + _TAG[0])


def gen_base():
    """tag bases for generated specs (recorded in the step, so replay does not need the counter)"""
    _GEN[0] += 1
    return float(_GEN[0])


class Obj:
    def __init__(self, real, model, labels):
        self.real = real
        self.model = model
        self.labels = labels      # {"atom": [...], "bond": [...], ...} ordered extra-column labels


def labels_of_spec(spec):
    d = {"atom": list(spec["extra_atom_labels"])}
    for k in M.KINDS:
        d[k] = list(spec["extra_%s_labels" % k])
    return d


def lammps_writable(cell):
    if cell is None:
        return True
    c = np.asarray(cell, float)
    return abs(c[0, 1]) < 1e-12 and abs(c[0, 2]) < 1e-12 and abs(c[1, 2]) < 1e-12


class World:
    """executes steps on real objects and on the model; every step is JSON-able and replayable"""

    def __init__(self, stats=None):
        self.pool = []
        self.history = []
        self.stats = stats
        self.flags = set()
        _TAG[0] = 0
        _GEN[0] = 0

    # -- helpers -------------------------------------------------------------------------------------------------
    def check(self, o, what):
        got = M.resolve(o.real, what)
        M.compare_atoms(got["atoms"], o.model["atoms"], what, pos_tol=1e-9, ordered=True)
        M.compare_terms(got["terms"], o.model["terms"], what, untyped_by_class=True)
        if (got["cell"] is None) != (o.model["cell"] is None) or \
                (got["cell"] is not None and np.abs(np.array(got["cell"]) - np.array(o.model["cell"])).max() > 1e-9):
            raise Violation("cell", "%s: cell %r, expected %r" % (what, got["cell"], o.model["cell"]))
        if len(o.model["atoms"]) >= 1 and lammps_writable(o.model["cell"]):
            self.check_lammps(o, what)

    def check_lammps(self, o, what):
        from mofun import Atoms
        buf = io.StringIO()
        try:
            with silenced():
                o.real.save_lmpdat(buf)
        except Exception as e:
            raise Violation("cannot-write-lammps", "%s: save_lmpdat raised %s: %r" % (what, type(e).__name__, e))
        text = buf.getvalue()
        try:
            p = ref_lammps.parse(text)
        except ref_lammps.FormatError as e:
            raise Violation("lammps-file-format", "%s: %s" % (what, e))
        errs = ref_lammps.check_wellformed(p)
        if errs:
            raise Violation("lammps-file-format", "%s: %s" % (what, errs[0]))
        try:
            with silenced():
                b = Atoms.load_lmpdat(io.StringIO(text))
        except Exception as e:
            raise Violation("cannot-read-back", "%s: load_lmpdat of the written file raised %s: %r" % (what, type(e).__name__, e))
        got = M.resolve(b, what + " -> save -> load")
        want = reload_model(o.model)
        if o.model["cell"] is not None and (got["cell"] is None or
                                            np.abs(np.array(got["cell"], float) - np.array(o.model["cell"], float)).max() > 5.1e-7):
            raise Violation("reload-cell", "%s -> save -> load: cell %r, written from %r" % (what, got["cell"], o.model["cell"]))
        M.compare_atoms(got["atoms"], want["atoms"], what + " -> save -> load", pos_tol=5.1e-7, ordered=True,
                        fields=("label", "mass", "pair", "group"))
        M.compare_terms(got["terms"], want["terms"], what + " -> save -> load", untyped_by_class=True)

    def note(self, flag):
        self.flags.add(flag)
        if self.stats is not None:
            self.stats.count("event:" + flag)

    # -- steps ---------------------------------------------------------------------------------------------------
    def apply(self, step):
        step = jsonable(step)
        self.history.append(step)
        op = step["op"]
        getattr(self, "op_" + op.replace("-", "_"))(step)
        # no step may change any *other* object of the pool (aliasing between copies, subsets, fragments, supercells)
        for i, o in enumerate(self.pool):
            what = "object %d (not involved in the step %r)" % (i, op)
            got = M.resolve(o.real, what)
            M.compare_atoms(got["atoms"], o.model["atoms"], what, pos_tol=1e-9, ordered=True)
            M.compare_terms(got["terms"], o.model["terms"], what, untyped_by_class=True)

    def op_construct(self, step):
        spec = step["spec"]
        # "twin": the caller builds two objects from the same numpy arrays (atom types, positions, charges, groups); they
        # are separate objects from then on
        arrays = M.caller_arrays(spec) if step.get("twin") and len(spec["pos"]) else None
        for _ in range(2 if arrays is not None else 1):
            try:
                real = M.build(spec, arrays)
            except Exception as e:
                raise Violation("exception-in-construction", "%s: %r" % (type(e).__name__, e))
            o = Obj(real, M.model_from_spec(spec), labels_of_spec(spec))
            tag_untyped_fresh(o.model)
            self.pool.append(o)
            self.check(o, "constructed object %d" % (len(self.pool) - 1))
        if arrays is not None:
            self.note("two-objects-from-the-same-arrays")

    def op_copy(self, step):
        o = self.pool[step["obj"]]
        with silenced():
            r = o.real.copy()
        n = Obj(r, copy.deepcopy(o.model), copy.deepcopy(o.labels))
        self.pool.append(n)
        self.check(n, "copy of object %d" % step["obj"])
        self.check(o, "object %d after being copied" % step["obj"])

    def op_delete(self, step):
        o = self.pool[step["obj"]]
        idx = list(step["indices"])
        before = {k: len(o.model["terms"][k]) for k in M.KINDS}
        try:
            with silenced():
                del o.real[idx]
        except Exception as e:
            raise Violation("exception-in-delete", "del object%d[%r]: %s: %r" % (step["obj"], idx, type(e).__name__, e))
        o.model = M.m_delete(o.model, idx)
        for k in M.KINDS:
            if before[k] and not o.model["terms"][k]:
                self.note("emptied-term-kind")
        if not o.model["atoms"]:
            self.note("emptied-all-atoms")
        self.check(o, "object %d after deleting atoms %r" % (step["obj"], idx))

    def op_pop(self, step):
        o = self.pool[step["obj"]]
        n = len(o.model["atoms"])
        i = step.get("index")
        try:
            with silenced():
                o.real.pop() if i is None else o.real.pop(i)
        except Exception as e:
            raise Violation("exception-in-pop", "%s: %r" % (type(e).__name__, e))
        o.model = M.m_delete(o.model, [n - 1 if i in (None, -1) else i])
        self.check(o, "object %d after pop(%s)" % (step["obj"], "" if i is None else i))

    def op_subset(self, step):
        o = self.pool[step["obj"]]
        idx = list(step["indices"])
        try:
            with silenced():
                form = step.get("container", "list")
                arg = tuple(idx) if form == "tuple" else np.array(idx, dtype=int) if form == "array" else idx
                r = o.real[idx if len(idx) > 1 else idx[0]] if step.get("scalar") else o.real[arg]
        except Exception as e:
            raise Violation("exception-in-subset", "object%d[%r]: %s: %r" % (step["obj"], idx, type(e).__name__, e))
        n = Obj(r, M.m_subset(o.model, idx), {"atom": [], "bond": [], "angle": [], "dihedral": [], "improper": []})
        self.pool.append(n)
        self.note("subset")
        self.check(n, "subset %r of object %d" % (idx, step["obj"]))

    def op_extend(self, step):
        o = self.pool[step["obj"]]
        spec = step["spec"]
        mp = {int(k): int(v) for k, v in step.get("map", {}).items()}
        try:
            frag = M.build(spec)
        except Exception as e:
            raise Violation("exception-in-construction", "%s: %r" % (type(e).__name__, e))
        mo = M.model_from_spec(spec)
        tag_untyped_fresh(mo)
        had = {k: bool(o.model["terms"][k]) for k in M.KINDS}
        had_atoms = bool(o.model["atoms"])
        mode = step.get("mode", "default")
        try:
            with silenced():
                if mode == "default":
                    o.real.extend(frag, structure_index_map=dict(mp))
                else:
                    offs = o.real.extend_types(frag)
                    o.real.extend(frag, offsets=offs, structure_index_map=dict(mp))
                    if mode == "twice":
                        spec2 = retag(spec, fresh_base())
                        step["spec2"] = spec2
                        o.real.extend(M.build(spec2), offsets=offs)
        except Exception as e:
            import traceback
            tb = traceback.extract_tb(e.__traceback__)
            raise Violation("exception-in-extend", "extend(%s, map=%r): %s: %r at %s" % (mode, mp, type(e).__name__, e, tb[-1].name if tb else "?"))
        o.model = M.m_extend(o.model, mo, mp)
        if mode == "twice":
            mo2 = M.model_from_spec(step["spec2"])
            # same fragment with the same offsets: same type classes as the first copy
            share_untyped(mo2, mo)
            o.model = M.m_extend(o.model, mo2, {})
        ol = labels_of_spec(spec)
        kind_labels = {k: (o.labels[k], ol[k]) for k in M.KINDS}
        o.model = M.merge_extra(o.model, o.labels["atom"], ol["atom"], 0, [], kind_labels)
        o.labels["atom"] = list(dict.fromkeys(o.labels["atom"] + ol["atom"]))
        for k in M.KINDS:
            o.labels[k] = list(dict.fromkeys(o.labels[k] + ol[k]))
        for k in M.KINDS:
            if not had[k] and mo["terms"][k] and ("emptied-term-kind" in self.flags):
                self.note("added-to-emptied-kind")
        if not had_atoms:
            self.note("extended-emptied-object")
        self.note("extend")
        self.check(o, "object %d after extend(%s, map=%r)" % (step["obj"], mode, mp))

    def op_replicate(self, step):
        o = self.pool[step["obj"]]
        r = list(step["r"])
        try:
            with silenced():
                sup = o.real.replicate(tuple(r))
        except Exception as e:
            raise Violation("exception-in-replicate", "replicate%r: %s: %r" % (tuple(r), type(e).__name__, e))
        want = M.m_replicate(o.model, r)
        # identify image atoms by position and re-tag them uniquely (real charges and model tags)
        pos = np.asarray(sup.positions, float)
        if len(pos) != len(want["atoms"]):
            raise Violation("atom-count", "replicate%r of %d atoms gives %d" % (tuple(r), len(o.model["atoms"]), len(pos)))
        scale = max(1.0, np.abs(np.array(want["cell"])).max())
        used = set()
        order = []
        for i in range(len(pos)):
            hit = None
            for j, w in enumerate(want["atoms"]):
                if j not in used and abs(float(sup.charges[i]) - w["charge"]) < 1e-12 and np.abs(pos[i] - np.array(w["pos"])).max() <= 1e-9 * scale:
                    hit = j
                    break
            if hit is None:
                raise Violation("atom-not-an-image", "replicate%r: atom %d at %r is not an image of an original atom" % (tuple(r), i, pos[i].tolist()))
            used.add(hit)
            order.append(hit)
        base = fresh_base()
        newtag = {}
        atoms = []
        for i, j in enumerate(order):
            w = want["atoms"][j]
            t = round((base + 0.001 * (i + 1)) * (-1 if i % 2 else 1), 6)
            newtag[w["tag"]] = t
            w = dict(w, tag=t, charge=t)
            atoms.append(w)
            sup.charges[i] = t
        for k in M.KINDS:
            for t in want["terms"][k]:
                t["tags"] = tuple(newtag[x] for x in t["tags"])
        want["atoms"] = atoms
        n = Obj(sup, want, copy.deepcopy(o.labels))
        self.pool.append(n)
        self.note("replicate")
        self.check(n, "replicate%r of object %d" % (tuple(r), step["obj"]))
        self.check(o, "object %d after being replicated" % step["obj"])

    def op_reload(self, step):
        from mofun import Atoms
        o = self.pool[step["obj"]]
        buf = io.StringIO()
        try:
            with silenced():
                o.real.save_lmpdat(buf)
                b = Atoms.load_lmpdat(io.StringIO(buf.getvalue()))
        except Exception as e:
            raise Violation("exception-in-reload", "%s: %r" % (type(e).__name__, e))
        n = Obj(b, reload_model(o.model, elements=True), {"atom": [], "bond": [], "angle": [], "dihedral": [], "improper": []})
        # type tables after a reload: untyped ids stay what they were
        self.pool.append(n)
        self.note("reload")
        self.check_reloaded(n, "object %d written to and read from a LAMMPS data file" % step["obj"])

    def check_reloaded(self, o, what):
        got = M.resolve(o.real, what)
        M.compare_atoms(got["atoms"], o.model["atoms"], what, pos_tol=5.1e-7, ordered=True, fields=("label", "mass", "pair", "group", "el"))
        M.compare_terms(got["terms"], o.model["terms"], what, untyped_by_class=True)
        # adopt the real (rounded) numbers so that later steps compare exactly
        for a, g in zip(o.model["atoms"], got["atoms"]):
            a["pos"], a["charge"], a["tag"], a["mass"] = g["pos"], g["charge"], g["tag"], g["mass"]
        retag = {}
        for k in M.KINDS:
            for t, g in zip(sorted(o.model["terms"][k], key=lambda t: repr(M.term_key(t, with_coeff=False))),
                            sorted(got["terms"][k], key=lambda t: repr(M.term_key(t, with_coeff=False)))):
                t["tags"] = g["tags"]
        if o.model["cell"] is not None:
            o.model["cell"] = got["cell"]

    def op_replace(self, step):
        """single-atom site pattern -> typed replacement with terms; rotation is the identity for one-atom patterns"""
        from mofun import replace_pattern_in_structure
        o = self.pool[step["obj"]]
        el = step["element"]
        rspec = step["rspec"]
        from mv import mf
        sp = mf.atoms_from([[0.0, 0.0, 0.0]], [el])
        try:
            rp = M.build(rspec)
        except Exception as e:
            raise Violation("exception-in-construction", "%s: %r" % (type(e).__name__, e))
        try:
            with silenced():
                new = replace_pattern_in_structure(o.real, sp, rp, replace_all=bool(step.get("replace_all")))
        except Exception as e:
            import traceback
            tb = traceback.extract_tb(e.__traceback__)
            raise Violation("exception-in-replace", "%s: %r at %s" % (type(e).__name__, e, tb[-1].name if tb else "?"))
        m = copy.deepcopy(o.model)
        mr = M.model_from_spec(rspec)
        tag_untyped_fresh(mr)
        sites = [i for i, a in enumerate(m["atoms"]) if a["el"] == el]
        cell = np.array(m["cell"], float)
        inv = np.linalg.inv(cell)
        shared = (not step.get("replace_all")) and rspec["type_elements"][rspec["atom_types"][0]] == el and \
            max(abs(x) for x in rspec["pos"][0]) < 1e-5
        out = copy.deepcopy(m)
        first = True
        for si in sites:
            site = m["atoms"][si]
            frag = copy.deepcopy(mr)
            base = fresh_base()
            tagmap = {}
            for j, a in enumerate(frag["atoms"]):
                p = np.array(site["pos"]) + np.array(rspec["pos"][j])
                f = p @ inv
                p = (f - np.floor(f)) @ cell
                a["pos"] = p.tolist()
                nt = round((base + 0.001 * (j + 1)) * (-1 if j % 2 else 1), 6)
                tagmap[a["tag"]] = nt
                a["tag"] = nt
                a["charge_pattern"] = a["charge"]
            for k in M.KINDS:
                for t in frag["terms"][k]:
                    t["tags"] = tuple(tagmap[x] for x in t["tags"])
            if not first:
                share_untyped(frag, first_frag)
            else:
                first_frag = frag
                first = False
            mp = {0: [i for i, a in enumerate(out["atoms"]) if a["tag"] == site["tag"]][0]} if shared else {}
            out = M.m_extend(out, frag, mp)
        dead = [] if shared else [i for i, a in enumerate(out["atoms"]) if a["tag"] in {m["atoms"][s]["tag"] for s in sites}]
        out = M.m_delete(out, dead)
        ol = labels_of_spec(rspec)
        kind_labels = {k: (o.labels[k], ol[k]) for k in M.KINDS}
        out = M.merge_extra(out, o.labels["atom"], ol["atom"], 0, [], kind_labels)
        labels = {"atom": list(dict.fromkeys(o.labels["atom"] + ol["atom"]))}
        for k in M.KINDS:
            labels[k] = list(dict.fromkeys(o.labels[k] + ol[k]))
        # the real inserted atoms carry the pattern's charges (not unique across sites): identify every result atom -
        # survivors by their charge tag, inserted atoms by (pattern charge, position) - without assuming any order of the
        # result's atoms (the statement of the replacement properties does not fix one), then re-tag the inserted ones
        res_pos = np.asarray(new.positions, float)
        if len(res_pos) != len(out["atoms"]):
            raise Violation("atom-count", "replace %s sites: %d atoms, expected %d" % (el, len(res_pos), len(out["atoms"])))
        from mv import geom
        survivors = {a["tag"]: k for k, a in enumerate(out["atoms"]) if "charge_pattern" not in a}
        pending = [k for k, a in enumerate(out["atoms"]) if "charge_pattern" in a]
        order = []
        for i in range(len(res_pos)):
            c = round(float(new.charges[i]), 9)
            if c in survivors:
                order.append(survivors.pop(c))
                continue
            hit = None
            for k in pending:
                a = out["atoms"][k]
                if abs(a["charge_pattern"] - c) < 1e-12 and geom.lattice_diff(cell, res_pos[i], a["pos"]) <= 1e-6:
                    hit = k
                    break
            if hit is None:
                raise Violation("inserted-atom", "result atom %d (charge %r at %r) is neither a surviving atom nor a replacement-"
                                "pattern atom at the place its site predicts" % (i, c, res_pos[i].tolist()))
            pending.remove(hit)
            order.append(hit)
        out["atoms"] = [out["atoms"][k] for k in order]
        for i, a in enumerate(out["atoms"]):
            if "charge_pattern" in a:
                a.pop("charge_pattern")
                a["pos"] = res_pos[i].tolist()
                new.charges[i] = a["tag"]
                a["charge"] = a["tag"]
        n = Obj(new, out, labels)
        self.pool.append(n)
        self.note("replace")
        self.check(n, "object %d after replacing %d %s site(s)" % (step["obj"], len(sites), el))
        self.check(o, "object %d after being used as replace input" % step["obj"])


_UNTYPED = [0]


def tag_untyped_fresh(m):
    """untyped ids are only meaningful within one object: give each (object, id) a globally unique class name"""
    _UNTYPED[0] += 1
    for k in M.KINDS:
        for t in m["terms"][k]:
            c = t["coeff"]
            if isinstance(c, tuple) and len(c) == 2 and c[0] == "untyped" and not isinstance(c[1], tuple):
                t["coeff"] = ("untyped", (_UNTYPED[0], c[1]))


def share_untyped(m2, m1):
    """m2 is the same fragment as m1 added with the same offsets: same classes"""
    for k in M.KINDS:
        for t2, t1 in zip(m2["terms"][k], m1["terms"][k]):
            if isinstance(t1["coeff"], tuple) and t1["coeff"] and t1["coeff"][0] == "untyped":
                t2["coeff"] = t1["coeff"]


def retag(spec, base):
    s = copy.deepcopy(spec)
    s["charges"] = [round((base + 0.001 * (i + 1)) * (-1 if i % 2 else 1), 6) for i in range(len(s["charges"]))]
    s["pos"] = [[x + 0.37, y + 0.11, z + 0.23] for x, y, z in s["pos"]]
    return s


def reload_model(m, elements=False):
    from mofun.atomic_masses import ATOMIC_MASSES
    out = copy.deepcopy(m)
    for a in out["atoms"]:
        a["pos"] = [round(x, 6) for x in a["pos"]]
        a["charge"] = round(a["charge"], 6)
        a["tag"] = round(a["tag"], 6)
        a["mass"] = round(a["mass"], 6)
        a["extra"] = {}
        if elements:
            el, d = min(ATOMIC_MASSES.items(), key=lambda kv: abs(kv[1] - a["mass"]))
            a["el_single"] = el
    if elements:
        # loader: elements guessed for all types or type numbers for all (C14) - every generated mass is an element mass
        for a in out["atoms"]:
            a["el"] = a.pop("el_single")
    for k in M.KINDS:
        for t in out["terms"][k]:
            t["extra"] = {}
            t["tags"] = tuple(round(x, 6) for x in t["tags"])
    if out["cell"] is not None:
        out["cell"] = [[round(x, 6) for x in r] for r in out["cell"]]
    return out


# ---------------------------------------------------------------------------------------------------------------------
# Hypothesis state machine

def small_spec(draw, max_atoms=5, cell="lammps", prefix=""):
    spec = draw(gen_atoms.typed_structure(min_atoms=1, max_atoms=max_atoms, max_terms=3, cell=cell, label_prefix=prefix,
                                          tag_base=gen_base()))
    return spec


def compatible_fragment(draw, o, max_atoms=5):
    """a fragment compatible with object o per term kind (tables on both sides or on neither) and for pair tables"""
    has_pair = any(a["pair"] is not None for a in o.model["atoms"]) if o.model["atoms"] else bool(len(o.real.pair_coeffs))
    spec = draw(gen_atoms.typed_structure(min_atoms=1, max_atoms=max_atoms, max_terms=3, cell="none", label_prefix="f",
                                          tag_base=gen_base(), pair=has_pair if (o.model["atoms"] or len(o.real.pair_coeffs)) else None))
    spec["pos"] = [[0.35 * x, 0.35 * y, 0.35 * z] for x, y, z in spec["pos"]]
    for k in M.KINDS:
        table = len(getattr(o.real, M.COEFF_ATTR[k])) > 0
        terms = len(getattr(o.real, k + "_types")) > 0
        if spec[k + "s"]:
            if table and not spec[k + "_coeffs"]:
                spec[k + "_coeffs"] = ["%s_f%d 1.5" % (k, r) for r in range(max(spec[k + "_types"]) + 1)]
            if terms and not table and spec[k + "_coeffs"]:
                spec[k + "_coeffs"] = []
        elif spec[k + "_coeffs"] and terms and not table:
            spec[k + "_coeffs"] = []
    return spec


def make_machine(stats, tier, ctx):
    class Machine(RuleBasedStateMachine):
        def __init__(self):
            super().__init__()
            self.w = World(stats)
            self.skip = False

        def run(self, step):
            import time
            if time.time() > ctx["t_end"]:
                self.skip = True
                return
            try:
                self.w.apply(step)
            except Violation as v:
                case = {"history": jsonable(self.w.history)}
                fid = match_known(ctx["mod"], ctx["active_known"], ctx["part"].name, case, v)
                if fid:
                    stats.known[fid] = stats.known.get(fid, 0) + 1
                    self.skip = True
                    return
                ctx["failing"].append((case, v.to_json()))
                raise

        @initialize(data=st.data())
        def start(self, data):
            stats.evaluations += 1
            spec = small_spec(data.draw)
            self.run({"op": "construct", "spec": spec, "twin": data.draw(hperm.integers(0, 3)) == 0})

        def pick(self, data, need_atoms=0, need_cell=False):
            cands = [i for i, o in enumerate(self.w.pool) if len(o.model["atoms"]) >= need_atoms and
                     (not need_cell or o.model["cell"] is not None) and len(o.model["atoms"]) <= 40]
            if not cands:
                return None
            return data.draw(st.sampled_from(cands))

        @precondition(lambda self: not self.skip and len(self.w.pool) < 6)
        @rule(data=st.data())
        def construct(self, data):
            self.run({"op": "construct", "spec": small_spec(data.draw), "twin": data.draw(hperm.integers(0, 3)) == 0})

        @precondition(lambda self: not self.skip and len(self.w.pool) < 6)
        @rule(data=st.data())
        def copy(self, data):
            i = self.pick(data)
            if i is not None:
                self.run({"op": "copy", "obj": i})

        @precondition(lambda self: not self.skip)
        @rule(data=st.data())
        def delete(self, data):
            i = self.pick(data, need_atoms=1)
            if i is None:
                return
            o = self.w.pool[i]
            n = len(o.model["atoms"])
            how = data.draw(st.sampled_from(["subset", "subset", "term-carriers", "all"]))
            if how == "all":
                idx = list(range(n))
            elif how == "term-carriers":
                kinds = [k for k in M.KINDS if o.model["terms"][k]]
                if not kinds:
                    return
                k = data.draw(st.sampled_from(kinds))
                tags = {x for t in o.model["terms"][k] for x in t["tags"]}
                idx = [j for j, a in enumerate(o.model["atoms"]) if a["tag"] in tags]
            else:
                k = data.draw(hperm.integers(1, n))
                idx = list(data.draw(hperm.permutations(range(n))))[:k]
            self.run({"op": "delete", "obj": i, "indices": idx})

        @precondition(lambda self: not self.skip)
        @rule(data=st.data())
        def pop(self, data):
            i = self.pick(data, need_atoms=1)
            if i is None:
                return
            n = len(self.w.pool[i].model["atoms"])
            self.run({"op": "pop", "obj": i, "index": data.draw(st.sampled_from([None, -1] + list(range(n))))})

        @precondition(lambda self: not self.skip and len(self.w.pool) < 6)
        @rule(data=st.data())
        def subset(self, data):
            i = self.pick(data, need_atoms=1)
            if i is None:
                return
            n = len(self.w.pool[i].model["atoms"])
            k = data.draw(hperm.integers(1, min(n, 4)))
            idx = list(data.draw(hperm.permutations(range(n))))[:k]
            # positions counted from the end (atoms[-1], atoms[[0, -2]]) and the usual index containers
            idx = [j - n if data.draw(hperm.integers(0, 3)) == 0 else j for j in idx]
            self.run({"op": "subset", "obj": i, "indices": idx,
                      "container": data.draw(st.sampled_from(["list", "list", "tuple", "array"])),
                      "scalar": len(idx) == 1 and data.draw(st.booleans())})

        @precondition(lambda self: not self.skip)
        @rule(data=st.data())
        def extend(self, data):
            i = self.pick(data)
            if i is None:
                return
            o = self.w.pool[i]
            spec = compatible_fragment(data.draw, o)
            ns, no = len(o.model["atoms"]), len(spec["pos"])
            k = data.draw(hperm.integers(0, min(ns, no)))
            keys = list(data.draw(hperm.permutations(range(no))))[:k]
            vals = list(data.draw(hperm.permutations(range(ns))))[:k]
            self.run({"op": "extend", "obj": i, "spec": spec, "map": {str(a): b for a, b in zip(keys, vals)},
                      "mode": data.draw(st.sampled_from(["default", "explicit", "twice"]))})

        @precondition(lambda self: not self.skip and len(self.w.pool) < 6)
        @rule(data=st.data())
        def replicate(self, data):
            i = self.pick(data, need_atoms=1, need_cell=True)
            if i is None or len(self.w.pool[i].model["atoms"]) > 10:
                return
            r = data.draw(st.sampled_from([[2, 1, 1], [1, 2, 1], [1, 1, 2], [2, 2, 1], [1, 1, 1]]))
            self.run({"op": "replicate", "obj": i, "r": r})

        @precondition(lambda self: not self.skip and len(self.w.pool) < 6)
        @rule(data=st.data())
        def reload(self, data):
            i = self.pick(data, need_atoms=1)
            if i is None or not lammps_writable(self.w.pool[i].model["cell"]):
                return
            self.run({"op": "reload", "obj": i})

        @precondition(lambda self: not self.skip and len(self.w.pool) < 6)
        @rule(data=st.data())
        def replace(self, data):
            i = self.pick(data, need_atoms=1, need_cell=True)
            if i is None:
                return
            o = self.w.pool[i]
            # the search requires every atom inside the cell
            fr = np.array([a["pos"] for a in o.model["atoms"]]) @ np.linalg.inv(np.array(o.model["cell"]))
            if fr.min() < 0 or fr.max() >= 1:
                return
            els = sorted({a["el"] for a in o.model["atoms"]})
            el = data.draw(st.sampled_from(els))
            if sum(1 for a in o.model["atoms"] if a["el"] == el) > 4:
                return
            rspec = compatible_fragment(data.draw, o, max_atoms=4)
            shared = data.draw(st.booleans())
            rspec["pos"] = [[x + 0.4 * j, y + 0.3, z + 0.2] for j, (x, y, z) in enumerate(rspec["pos"])]
            if shared:
                rspec["pos"][0] = [0.0, 0.0, 0.0]
                rspec["type_elements"][rspec["atom_types"][0]] = el
                from mofun.atomic_masses import ATOMIC_MASSES
                rspec["type_masses"][rspec["atom_types"][0]] = round(ATOMIC_MASSES[el] + 0.002, 6)
            else:
                # no replacement atom may coincide with the site atom in element and position
                rspec["pos"][0] = [rspec["pos"][0][0] + 0.4, rspec["pos"][0][1], rspec["pos"][0][2]]
            # replacement-pattern atoms of the site element would be found again only in later steps; fine
            self.run({"op": "replace", "obj": i, "element": el, "rspec": rspec, "replace_all": data.draw(st.booleans())})

        @rule()
        def noop(self):
            pass

        def teardown(self):
            h = self.w.history
            mut = [s["op"] for s in h if s["op"] in ("delete", "pop", "extend")]
            if len(h) >= 2 and mut:
                stats.mark_nontrivial({"history": h}, sample={"ops": [s["op"] for s in h], "first": h[0]})
            stats.count("history-length:%s" % (len(h) if len(h) < 10 else "10+"))
    return Machine


def replay(case, stats):
    w = World(stats)
    for step in case["history"]:
        step = dict(step)
        step.pop("spec2", None)
        w.apply(step)


# ---------------------------------------------------------------------------------------------------------------------
# bounded-exhaustive driver over symbolic steps

def start_specs():
    from props.c10 import family
    fam = {(sh, len(sp["pos"])): sp for sh, sp in family(4)}
    a = copy.deepcopy(fam[("chain", 3)])
    b = copy.deepcopy(fam[("ring", 4)])
    for k in M.KINDS:          # b: no coefficient tables at all
        b[k + "_coeffs"] = []
    b["pair_coeffs"] = []
    return [a, b]


def frag_spec(with_tables, base):
    s = M.empty_spec()
    s["type_elements"], s["type_labels"], s["type_masses"] = ["N", "F"], ["N_f", "F_f"], [14.0067, 18.9984032]
    s["pair_coeffs"] = ["lj 9.0 9.5 # N_f", "lj 8.0 8.5 # F_f"] if with_tables else []
    s["pos"] = [[0.5, 0.5, 0.5], [1.5, 0.5, 0.5], [1.5, 1.5, 0.5]]
    s["atom_types"] = [0, 1, 1]
    s["charges"] = [round((base + 0.001 * (i + 1)) * (-1 if i % 2 else 1), 6) for i in range(3)]
    s["groups"] = [2, 2, 2]
    s["bonds"], s["bond_types"] = [[0, 1], [1, 2]], [0, 1]
    s["angles"], s["angle_types"] = [[0, 1, 2]], [0]
    s["dihedrals"], s["dihedral_types"] = [], []
    s["impropers"], s["improper_types"] = [], []
    if with_tables:
        s["bond_coeffs"] = ["fragbond 1.0 # N F", "fragbond 2.0 # F F"]
        s["improper_coeffs"] = []
    return s


SYMBOLIC = ["delete-first", "delete-last", "delete-middle", "delete-bonded", "delete-all", "pop", "extend", "extend-map-first",
            "extend-map-last", "extend-explicit", "subset-ends", "copy-then-use", "replicate", "reload"]


def resolve_symbolic(w, sym, cur, with_tables):
    o = w.pool[cur]
    n = len(o.model["atoms"])
    if sym.startswith("delete"):
        if n == 0:
            return None
        if sym == "delete-first":
            idx = [0]
        elif sym == "delete-last":
            idx = [n - 1]
        elif sym == "delete-middle":
            idx = [n // 2]
        elif sym == "delete-all":
            idx = list(range(n))
        else:
            tags = {x for t in o.model["terms"]["bond"] for x in t["tags"]}
            idx = [j for j, a in enumerate(o.model["atoms"]) if a["tag"] in tags]
            if not idx:
                return None
        return {"op": "delete", "obj": cur, "indices": idx}, cur
    if sym == "pop":
        return ({"op": "pop", "obj": cur, "index": None}, cur) if n else None
    if sym.startswith("extend"):
        spec = frag_spec(with_tables, gen_base() + 50)
        mp = {}
        if sym == "extend-map-first" and n:
            mp = {"0": 0}
        if sym == "extend-map-last" and n:
            mp = {"2": n - 1}
        return {"op": "extend", "obj": cur, "spec": spec, "map": mp, "mode": "explicit" if sym == "extend-explicit" else "default"}, cur
    if sym == "subset-ends":
        if n == 0:
            return None
        return {"op": "subset", "obj": cur, "indices": [n - 1, 0] if n > 1 else [0]}, len(w.pool)
    if sym == "copy-then-use":
        return {"op": "copy", "obj": cur}, len(w.pool)
    if sym == "replicate":
        if n == 0 or n > 12:
            return None
        return {"op": "replicate", "obj": cur, "r": [1, 2, 1]}, len(w.pool)
    if sym == "reload":
        if n == 0:
            return None
        return {"op": "reload", "obj": cur}, len(w.pool)
    raise ValueError(sym)


def enum_cases(tier, seed):
    depth = 2 if tier == "quick" else 3
    out = []
    for si in range(2):
        for d in range(1, depth + 1):
            for seq in itertools.product(SYMBOLIC, repeat=d):
                out.append({"start": si, "seq": list(seq)})
                out.append({"start": si, "seq": list(seq), "twin": True})
    return out


def enum_oracle(case, stats):
    specs = start_specs()
    w = World(stats)
    with_tables = case["start"] == 0
    w.apply({"op": "construct", "spec": specs[case["start"]], "twin": bool(case.get("twin"))})
    cur = 0
    applied = 0
    for sym in case["seq"]:
        r = resolve_symbolic(w, sym, cur, with_tables)
        if r is None:
            continue
        step, cur = r
        w.apply(step)
        applied += 1
    stats.count("enum-applied-steps:%d" % applied)
    if applied >= 2:
        stats.mark_nontrivial(case)


PARTS = [
    EnumPart("bounded-exhaustive", enum_cases, enum_oracle, chunk=100),
    MachinePart("machine", make_machine, replay, runs={"quick": 2400, "thorough": 16000}, steps={"quick": 12, "thorough": 30}),
]
