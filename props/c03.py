"""C03 — search results do not depend on how crystal or pattern are represented; supercell counts."""
import os

import numpy as np
from hypothesis import strategies as st

from mv import hperm

from mv import gen_geom, geom, mf, ref_match
from mv.quiet import silenced
from mv.runner import EnumPart, HypPart, Violation

PROPERTY = "C03"
RULE = ("A base case from the planted-structure generator (all cell / pattern / pose / boundary classes, decoys) plus one "
        "drawn transformation: shift by a vector (random, exact lattice vector, atom-onto-origin, atom-onto-face) and "
        "wrap; permutation of the atoms; rigid motion of the pattern (all pose classes + translation); other valid "
        "hints (incl. index 0, single hints); other RNG seeds; replication a x b x c with factors from {1,2,3}. Oracle: "
        "metamorphic - the set of matched atom groups, renamed back, equals the base set; for replication every "
        "unit-cell group appears exactly a*b*c times after folding supercell atoms back and nothing else appears. A "
        "group present in only one run is tolerated only if the reference classifies it grey. Real files (uio66, "
        "uio66-triclinic, hkust-1 with linker / benzene / single-metal patterns) get the same transformations. "
        "Non-trivial = base has >= 1 match and the transformation is not the identity; distinct by hash of the case.")
ASSUMPTIONS = ["a difference confined to grey groups (neither clear-in nor clear-out under both runs' hints) is tolerated",
               "supercell sizes are bounded to ~300 atoms in the generated part (cost)"]

XF_KINDS = ["shift", "shift", "permute", "permute-in-place", "rotate-crystal", "pattern-motion", "pattern-motion", "hints", "seeds", "replicate", "replicate"]


@st.composite
def xf_case(draw):
    base = draw(gen_geom.planted(max_copies=3))
    kind = draw(st.sampled_from(XF_KINDS))
    cell = np.array(base["cell"])
    N = len(base["spos"])
    xf = {"kind": kind}
    if kind == "shift":
        sk = draw(st.sampled_from(["random", "lattice", "atom-to-origin", "atom-to-face", "tiny"]))
        xf["shift_kind"] = sk
        if sk == "random":
            v = [draw(st.floats(-20, 20)) for _ in range(3)]
        elif sk == "tiny":
            v = [draw(st.floats(-1e-6, 1e-6)) for _ in range(3)]
        elif sk == "lattice":
            v = (np.array([draw(hperm.integers(-2, 2)) for _ in range(3)]) @ cell).tolist()
        else:
            j = draw(hperm.integers(0, N - 1))
            v = -np.array(base["spos"][j])
            if sk == "atom-to-face":
                ax = draw(hperm.integers(0, 2))
                f = geom.frac(cell, v)
                keep = [draw(st.floats(0, 1)) for _ in range(3)]
                f = np.array([f[k] if k == ax else keep[k] for k in range(3)])
                v = geom.cart(cell, f)
            v = v.tolist()
        xf["v"] = v
    elif kind in ("permute", "permute-in-place"):
        xf["perm"] = list(draw(hperm.permutations(range(N))))
    elif kind == "rotate-crystal":
        # the whole crystal (cell vectors and atoms) rotated: same lattice parameters, another orientation
        R = geom.axis_rotations()[draw(hperm.integers(1, 23))] if draw(st.booleans()) else np.asarray(draw(gen_geom.random_rotation()))
        c2 = cell @ np.asarray(R).T
        if np.abs(c2 - np.diag(np.diag(c2))).max() < 1e-12 and np.diag(c2).min() < 0:
            # a diagonal cell matrix with a negative entry (box along -y) is not a supported way to write an orthorhombic
            # cell (every loader produces positive diagonals): use a generic orientation instead
            R = geom.quat_to_matrix((0.3, 0.5, 0.7, 0.4))
        xf["R"] = np.asarray(R).tolist()
    elif kind == "pattern-motion":
        R, pcls = draw(gen_geom.pose(base["ppos"], classes=["axis", "axis", "flip", "random", "random", "near-parallel", "near-antiparallel"]))
        inside = [c for c in base["meta"]["copies"] if c["crossings"] == 0]
        if inside and len(base["ppos"]) >= 2 and draw(hperm.integers(0, 2)) == 0:
            # the pattern as cut out of the structure itself: oriented like one of the occurrences, exactly or up to a tilt of
            # at most a third of a degree
            c = inside[draw(hperm.integers(0, len(inside) - 1))]
            Rc = geom.kabsch(np.array(base["ppos"]), np.array([base["spos"][i] for i in c["idx"]]))[0]
            tilt = draw(st.sampled_from([0.0, 0.0, 1e-7, 1e-4, 1e-3, 2e-3, 3e-3, 4e-3, 5e-3]))
            R = (geom.axis_angle_matrix(draw(gen_geom.unit_vector()), tilt) if tilt else np.eye(3)) @ Rc
            pcls = "as-cut-from-structure" if tilt == 0 else "tilted-from-an-occurrence"
        xf["R"] = np.asarray(R).tolist()
        xf["pose"] = pcls
        xf["t"] = [draw(st.floats(-10, 10)) for _ in range(3)]
        whole = [c for c in inside if c["noise"] == 0 and c["idx"] == list(range(c["idx"][0], c["idx"][0] + len(c["idx"])))]
        if whole and draw(st.booleans()):
            # the pattern is literally cut out of the caller's coordinate table (a slice of the array the structure was
            # built from) and then moved with Atoms.translate(): a rigid translation of the pattern, done in place
            c = whole[draw(hperm.integers(0, len(whole) - 1))]
            xf = {"kind": "cut-translate", "rows": [c["idx"][0], c["idx"][-1] + 1], "t": xf["t"]}
    elif kind == "hints":
        pat = {"pos": base["ppos"], "els": base["pels"]}
        forms = [f for f in gen_geom.hint_forms(len(base["ppos"])) if f != "none"] or ["none"]
        h, form = draw(gen_geom.hints(pat, force_form=draw(st.sampled_from(forms))))
        xf["hints"] = h
        xf["form"] = form
    elif kind == "seeds":
        xf["seeds"] = [draw(hperm.integers(0, 2 ** 31 - 1)), draw(hperm.integers(0, 2 ** 31 - 1))]
    else:
        r = [draw(hperm.integers(1, 3)) for _ in range(3)]
        while N * r[0] * r[1] * r[2] > 300 and max(r) > 1:
            r[int(np.argmax(r))] -= 1
        xf["repl"] = r
    base["xf"] = xf
    return base


def group_class(case, g, in_thr):
    """reference classification of one atom group (clear-in / grey / out)"""
    sub_pos = [case["spos"][i] for i in g]
    sub_els = [case["sels"][i] for i in g]
    try:
        groups = ref_match.find_all(case["cell"], sub_pos, sub_els, case["ppos"], case["pels"], case["atol"], in_thr=in_thr)
    except ref_match.TooAmbiguous:
        return "grey"
    key = tuple(range(len(g)))
    return groups[key]["cls"] if key in groups else "out"


def fold_supercell(cell, spos, sels, sup):
    """map every supercell atom to the unit-cell atom it is an image of (by position modulo the unit lattice and
    element); index mod N is tried first"""
    N = len(spos)
    spos = np.asarray(spos, float)
    pos = np.asarray(sup.positions, float)
    els = list(sup.elements)
    out = []
    for i in range(len(pos)):
        k = i % N
        if els[i] == sels[k] and geom.is_lattice_vector(cell, pos[i] - spos[k], 1e-6):
            out.append(k)
            continue
        cands = [k2 for k2 in range(N) if els[i] == sels[k2] and geom.is_lattice_vector(cell, pos[i] - spos[k2], 1e-6)]
        if len(cands) < 1:
            raise Violation("supercell-atom-not-an-image", "supercell atom %d (%s at %r) is not a lattice image of any "
                            "unit-cell atom" % (i, els[i], pos[i].tolist()))
        out.append(cands[0])
    return out


def run_transformed(case, s, p, xf, stats):
    """returns (list of groups renamed back to base atom names, multiplicity expected, hints used)"""
    atol, hints, seeds = case["atol"], case["hints"], case["seeds"]
    cell = np.array(case["cell"])
    kind = xf["kind"]
    if kind == "shift":
        s2 = mf.atoms_from(geom.wrap(cell, np.array(case["spos"]) + np.array(xf["v"])), case["sels"], cell)
        idx = mf.find(s2, p, atol, hints, seeds, what="search-after-shift")
        return [tuple(sorted(int(x) for x in m)) for m in idx], 1, hints
    if kind == "permute":
        perm = xf["perm"]     # new atom j is old atom perm[j]
        s2 = mf.atoms_from([case["spos"][k] for k in perm], [case["sels"][k] for k in perm], cell)
        idx = mf.find(s2, p, atol, hints, seeds, what="search-after-permutation")
        return [tuple(sorted(perm[int(x)] for x in m)) for m in idx], 1, hints
    if kind == "permute-in-place":
        # the same object that was searched before is re-listed by writing the permuted arrays back in place
        perm = xf["perm"]
        types = list(dict.fromkeys(case["sels"]))
        s.positions[:] = np.array([case["spos"][k] for k in perm], float)
        s.atom_types[:] = np.array([types.index(case["sels"][k]) for k in perm])
        idx = mf.find(s, p, atol, hints, seeds, what="search-after-in-place-relisting")
        return [tuple(sorted(perm[int(x)] for x in m)) for m in idx], 1, hints
    if kind == "rotate-crystal":
        R = np.array(xf["R"])
        s2 = mf.atoms_from(np.array(case["spos"]) @ R.T, case["sels"], cell @ R.T)
        idx = mf.find(s2, p, atol, hints, seeds, what="search-in-rotated-crystal")
        return [tuple(sorted(int(x) for x in m)) for m in idx], 1, hints
    if kind == "cut-translate":
        from mofun import Atoms
        table = np.array(case["spos"], dtype=float)
        a, b = xf["rows"]
        with silenced():
            s2 = Atoms(elements=list(case["sels"]), positions=table, cell=np.array(case["cell"], float))
            p2 = Atoms(elements=list(case["pels"]), positions=table[a:b])
        first = [tuple(sorted(int(x) for x in m)) for m in mf.find(s2, p2, atol, hints, seeds, what="search-with-pattern-cut-from-table")]
        with silenced():
            p2.translate(np.array(xf["t"]))
        idx = mf.find(s2, p2, atol, hints, seeds, what="search-after-translating-the-cut-pattern")
        second = [tuple(sorted(int(x) for x in m)) for m in idx]
        if sorted(first) != sorted(second):
            # exact relation: the same pattern object, translated, against the same structure object
            lost, new = sorted(set(first) - set(second)), sorted(set(second) - set(first))
            in_thr = ref_match.in_threshold(case["ppos"], hints, atol)
            if any(group_class(case, g, in_thr) != "grey" for g in lost + new):
                raise Violation("result-depends-on-representation", "pattern cut from the structure's coordinate table, then "
                                "moved with translate(%r): groups %r found before the move only, %r after it only" %
                                (xf["t"], lost, new))
        return second, 1, hints
    if kind == "pattern-motion":
        pp = np.array(case["ppos"]) @ np.array(xf["R"]).T + np.array(xf["t"])
        p2 = mf.atoms_from(pp, case["pels"])
        idx = mf.find(s, p2, atol, hints, seeds, what="search-with-moved-pattern")
        return [tuple(sorted(int(x) for x in m)) for m in idx], 1, hints
    if kind == "hints":
        idx = mf.find(s, p, atol, xf["hints"], seeds, what="search-with-hints")
        return [tuple(sorted(int(x) for x in m)) for m in idx], 1, xf["hints"]
    if kind == "seeds":
        idx = mf.find(s, p, atol, hints, xf["seeds"], what="search-with-other-seed")
        return [tuple(sorted(int(x) for x in m)) for m in idx], 1, hints
    if kind == "replicate":
        r = xf["repl"]
        try:
            with silenced():
                sup = s.replicate(tuple(r))
        except Exception as e:
            raise Violation("exception-in-replicate", "%s: %r for factors %r" % (type(e).__name__, e, r))
        want = np.array(r, float)[:, None] * cell
        if np.abs(np.asarray(sup.cell, float) - want).max() > 1e-9 * max(1.0, np.abs(want).max()):
            raise Violation("supercell-cell", "replicate%r of cell %r gave cell %r, expected rows scaled: %r" %
                            (tuple(r), cell.tolist(), np.asarray(sup.cell).tolist(), want.tolist()))
        fold = fold_supercell(cell, case["spos"], case["sels"], sup)
        idx = mf.find(sup, p, atol, hints, seeds, what="search-in-supercell")
        raw = [tuple(sorted(int(x) for x in m)) for m in idx]
        if len(set(raw)) != len(raw):
            raise Violation("duplicate-group", "supercell search reports a group twice: %r" % (sorted(raw),))
        case["_sup"] = {"cell": np.asarray(sup.cell, float), "pos": np.asarray(sup.positions, float),
                        "els": list(sup.elements), "fold": fold, "raw": raw}
        return [tuple(sorted(fold[int(x)] for x in m)) for m in idx], r[0] * r[1] * r[2], hints
    raise ValueError(kind)


def compare_sets(case, base_groups, xf_groups, mult, in_thr, what):
    bcount, xcount = {}, {}
    for g in base_groups:
        bcount[g] = bcount.get(g, 0) + 1
    for g in xf_groups:
        xcount[g] = xcount.get(g, 0) + 1
    ngrey = 0
    for g in sorted(set(bcount) | set(xcount)):
        b, x = bcount.get(g, 0), xcount.get(g, 0)
        if x == b * mult:
            continue
        if len(set(g)) != len(g):
            raise Violation("folded-group-repeats-atom", "%s: supercell match folds to %r" % (what, g))
        cls = group_class(case, g, in_thr)
        if cls == "grey":
            ngrey += 1
            continue
        if "_sup" in case and b == 1 and cls == "in":
            # the same unit-cell atom set may match through several image combinations (one clear-in, others grey);
            # in the supercell those are distinct atom groups.  Judge the supercell groups folding onto g with the
            # reference restricted to the atoms that fold into g.
            sup = case["_sup"]
            atoms = [i for i, k in enumerate(sup["fold"]) if k in g]
            loc = {a: j for j, a in enumerate(atoms)}
            try:
                rg = ref_match.find_all(sup["cell"], sup["pos"][atoms], [sup["els"][i] for i in atoms], case["ppos"],
                                        case["pels"], case["atol"], in_thr=in_thr)
            except ref_match.TooAmbiguous:
                ngrey += 1
                continue
            IN = {k for k, v in rg.items() if v["cls"] == "in"}
            GREY = {k for k, v in rg.items() if v["cls"] == "grey"}
            S = {tuple(sorted(loc[i] for i in m)) for m in sup["raw"] if tuple(sorted(sup["fold"][i] for i in m)) == g}
            if IN <= S <= (IN | GREY) and len(IN) >= mult:
                ngrey += 1
                continue
        raise Violation("result-depends-on-representation",
                        "%s: atom group %r (reference: clear-%s) reported %d time(s) in the base search and %d time(s) "
                        "after the transformation (expected %d)" % (what, g, cls, b, x, b * mult))
    return ngrey


def oracle(case, stats):
    xf = case["xf"]
    atol, hints, seeds = case["atol"], case["hints"], case["seeds"]
    s = mf.atoms_from(case["spos"], case["sels"], case["cell"])
    p = mf.atoms_from(case["ppos"], case["pels"])
    base = [tuple(sorted(int(x) for x in m)) for m in mf.find(s, p, atol, hints, seeds, what="base-search")]
    xfg, mult, hints2 = run_transformed(case, s, p, xf, stats)
    in_thr = min(ref_match.in_threshold(case["ppos"], hints, atol), ref_match.in_threshold(case["ppos"], hints2, atol))
    try:
        ngrey = compare_sets(case, base, xfg, mult, in_thr, xf["kind"])
    finally:
        case.pop("_sup", None)
    stats.count("xf:" + xf["kind"])
    if xf["kind"] == "shift":
        stats.count("shift:" + xf["shift_kind"])
    if xf["kind"] == "hints":
        stats.count("newhints:" + xf["form"])
    if xf["kind"] == "replicate":
        stats.count("repl:%s" % ("equal" if len(set(xf["repl"])) == 1 else "unequal"))
        stats.count("repl-cell:" + case["meta"]["cell_cls"])
    stats.count("grey-diff-groups:%s" % ("0" if ngrey == 0 else "1+"))
    stats.count("base-matches:%s" % (len(base) if len(base) < 4 else "4+"))
    identity = (xf["kind"] == "replicate" and mult == 1) or (xf["kind"] == "hints" and xf["hints"] == hints) or \
               (xf["kind"] in ("permute", "permute-in-place") and xf["perm"] == sorted(xf["perm"]))
    if len(base) >= 1 and not identity:
        stats.mark_nontrivial(case)


# ---------------------------------------------------------------------------------------------------------------------
# the repository's real MOF files: only the metamorphic relation is available there

def _repo_root():
    import mofun
    return os.path.dirname(os.path.dirname(os.path.abspath(mofun.__file__)))


REAL = {
    "uio66+linker": ("tests/uio66/uio66.cif", "tests/uio66/uio66-linker.cml", 0.05),
    "uio66-tri+linker": ("tests/uio66/uio66-triclinic.lmpdat", "tests/uio66/uio66-linker.cml", 0.2),
    "hkust1+benzene": ("tests/hkust-1/hkust-1-with-bonds.cif", "tests/molecules/benzene.xyz", 0.05),
    "uio66+Zr": ("tests/uio66/uio66.cif", "Zr", 0.05),
    "hkust1+Cu": ("tests/hkust-1/hkust-1-with-bonds.cif", "Cu", 0.05),
}
_cache = {}


def load_real(name):
    if name in _cache:
        return _cache[name]
    from mofun import Atoms
    import ase.io
    spath, ppath, atol = REAL[name]
    root = _repo_root()
    with silenced():
        s = Atoms.load(os.path.join(root, spath))
        if ppath in ("Zr", "Cu"):
            p = Atoms(elements=[ppath], positions=[[0., 0., 0.]])
        elif ppath.endswith(".xyz"):
            p = Atoms.from_ase_atoms(ase.io.read(os.path.join(root, ppath)))
        else:
            p = Atoms.load(os.path.join(root, ppath))
    case = {"cell": np.asarray(s.cell, float).tolist(), "spos": geom.wrap(s.cell, s.positions).tolist(),
            "sels": list(s.elements), "ppos": np.asarray(p.positions, float).tolist(), "pels": list(p.elements),
            "atol": atol}
    _cache[name] = case
    return case


def real_cases(tier, seed):
    import random
    rng = random.Random(seed)
    out = []
    names = ["uio66+linker", "uio66-tri+linker", "uio66+Zr"] if tier == "quick" else list(REAL)
    for name in names:
        kinds = [("shift", "random"), ("permute", None)] if tier == "quick" else \
            [("shift", "random"), ("shift", "lattice"), ("shift", "atom-to-origin"), ("permute", None),
             ("pattern-motion", None), ("hints", None), ("seeds", None), ("replicate", [2, 1, 1]), ("replicate", [1, 2, 1])]
        if tier == "quick" and name == "uio66+Zr":
            kinds = [("replicate", [1, 1, 2]), ("shift", "atom-to-origin")]
        for kind, arg in kinds:
            xf = {"kind": kind}
            if kind == "shift":
                xf["shift_kind"] = arg
                xf["arg"] = [rng.uniform(-20, 20) for _ in range(3)] if arg == "random" else \
                    [rng.randint(-2, 2) for _ in range(3)] if arg == "lattice" else rng.randint(0, 10 ** 6)
            elif kind == "permute":
                xf["perm_seed"] = rng.randint(0, 10 ** 9)
            elif kind == "pattern-motion":
                q = [rng.uniform(-1, 1) for _ in range(4)]
                xf["R"] = geom.quat_to_matrix(q).tolist()
                xf["t"] = [rng.uniform(-10, 10) for _ in range(3)]
                xf["pose"] = "random"
            elif kind == "hints":
                xf["hint_seed"] = rng.randint(0, 10 ** 9)
            elif kind == "seeds":
                xf["seeds"] = [rng.randint(0, 2 ** 31 - 1), rng.randint(0, 2 ** 31 - 1)]
            else:
                xf["repl"] = arg
            out.append({"real": name, "xf": xf, "seeds": [rng.randint(0, 2 ** 31 - 1), rng.randint(0, 2 ** 31 - 1)]})
    return out


def real_oracle(rc, stats):
    import random
    case = dict(load_real(rc["real"]))
    case["hints"] = [None, None, None]
    case["seeds"] = rc["seeds"]
    xf = dict(rc["xf"])
    cell = np.array(case["cell"])
    N = len(case["spos"])
    n = len(case["ppos"])
    if xf["kind"] == "shift":
        if xf["shift_kind"] == "random":
            xf["v"] = xf["arg"]
        elif xf["shift_kind"] == "lattice":
            xf["v"] = (np.array(xf["arg"]) @ cell).tolist()
        else:
            xf["v"] = (-np.array(case["spos"][xf["arg"] % N])).tolist()
    elif xf["kind"] == "permute":
        perm = list(range(N))
        random.Random(xf["perm_seed"]).shuffle(perm)
        xf["perm"] = perm
    elif xf["kind"] == "hints":
        rng = random.Random(xf["hint_seed"])
        if n >= 3:
            ppos = np.array(case["ppos"])
            for _ in range(50):
                a, b, c = rng.sample(range(n), 3)
                ax = (ppos[b] - ppos[a]) / np.linalg.norm(ppos[b] - ppos[a])
                w = ppos[c] - ppos[a]
                if np.linalg.norm(w - np.dot(w, ax) * ax) >= 0.3:
                    break
            xf["hints"] = [a, b, c]
        else:
            xf["hints"] = [None, None, None]
        xf["form"] = "triple"
    case["xf"] = xf
    case["meta"] = {"cell_cls": "real:" + rc["real"]}
    oracle(case, stats)
    stats.count("real:" + rc["real"])


PARTS = [
    HypPart("metamorphic", lambda tier: xf_case(), oracle, {"quick": 6000, "thorough": 60000}),
    EnumPart("real-files", real_cases, real_oracle, exhaustive=lambda tier: False, chunk=1),
]
