"""C02 — every occurrence is found exactly once, also across periodic boundaries."""
import numpy as np

from mv import gen_geom, mf, ref_match
from mv.runner import HypPart, Violation
from props.c01 import classify_case

PROPERTY = "C02"
RULE = ("Same planted-structure generator as C01, weighted towards 2-4 copies, tight cells and boundary-straddling "
        "anchors, with decoys. Oracle = independent brute-force reference matcher over a 5x5x5 image block (element "
        "equality, pair-distance pruning, proper Kabsch fit) that classifies every candidate clear-in / grey / clear-out "
        "and folds to atom groups: IN subset-of reported subset-of IN+GREY, each group reported once, and count == |IN| "
        "when there is no grey group. Non-trivial = at least one clear-in group and (a copy crossing a boundary, or >= 2 "
        "copies, or a decoy present); distinct by hash of the whole case.")
ASSUMPTIONS = ["clear-in = proper-Kabsch max deviation <= atol/16; clear-out = pair distance off by > 2*sqrt(3)*atol or "
               "RMSD > sqrt(3)*atol; grey candidates may be reported or not",
               "cases whose reference search exceeds 20000 complete candidates are skipped and counted"]


def compare(case, idx, groups, stats):
    reported = {}
    for m in idx:
        key = tuple(sorted(int(x) for x in m))
        reported[key] = reported.get(key, 0) + 1
    IN = {k for k, g in groups.items() if g["cls"] == "in"}
    GREY = {k for k, g in groups.items() if g["cls"] == "grey"}
    for k, c in reported.items():
        if c > 1:
            raise Violation("duplicate-group", "atom group %r reported %d times" % (k, c))
    missing = IN - set(reported)
    if missing:
        k = sorted(missing)[0]
        o = [o for o in groups[k]["orderings"] if o["cls"] == "in"][0]
        raise Violation("missed-occurrence", "atom group %r is a rigid copy of the pattern (max deviation %.3g, atol %.3g) "
                        "but is not reported; reported groups: %r" % (k, o["maxdev"], case["atol"], sorted(reported)))
    extra = set(reported) - IN - GREY
    if extra:
        raise Violation("spurious-match", "atom group %r reported but clearly outside the tolerance" % (sorted(extra)[0],))
    if not GREY and len(idx) != len(IN):
        raise Violation("count", "%d matches reported, %d distinct occurrences" % (len(idx), len(IN)))
    stats.count("grey-groups:%s" % ("0" if not GREY else "1+"))
    stats.count("in-groups:%s" % (len(IN) if len(IN) < 5 else "5+"))
    return IN, GREY


def oracle(case, stats):
    atol, hints, seeds = case["atol"], case["hints"], case["seeds"]
    try:
        groups = ref_match.find_all(case["cell"], case["spos"], case["sels"], case["ppos"], case["pels"], atol,
                                    in_thr=ref_match.in_threshold(case["ppos"], hints, atol),
                                    max_candidates=2000 if len(case["ppos"]) > 8 else 20000)
    except ref_match.TooAmbiguous:
        stats.count("skipped:reference-budget")
        return
    s = mf.atoms_from(case["spos"], case["sels"], case["cell"])
    p = mf.atoms_from(case["ppos"], case["pels"])
    idx = mf.find(s, p, atol, hints, seeds, positions=False)
    IN, GREY = compare(case, idx, groups, stats)
    meta = case.get("meta", {})
    copies = meta.get("copies", [])
    # how many planted copies the reference itself classifies clear-in (measures the generator, not mofun)
    n = len(case["ppos"])
    for c in copies:
        key = tuple(sorted(c["idx"]))
        stats.count("planted-copy-is:%s" % (groups[key]["cls"] if key in groups else "out"))
    nt = len(IN) >= 1 and (any(c["crossings"] > 0 for c in copies) or len(copies) >= 2 or bool(meta.get("decoys")))
    classify_case(case, len(idx), stats, nt=bool(nt))


def strategy(tier):
    return gen_geom.planted(max_copies=4, tightness=[1.02, 1.02, 1.1, 1.5, 3.0])


def large_strategy(tier):
    """linker-sized planar patterns (12-18 atoms) with decoys that have ONE atom 3.6-5 tolerances out of plane: every pair
    distance still agrees, the RMSD over all atoms is below the tolerance, yet no rigid motion brings every atom within
    sqrt(3)*atol (certified by the minimax lower bound of the reference)"""
    return gen_geom.planted(max_copies=2, pattern_classes=["planar"], min_atoms=12, max_atoms=18, with_hints=False,
                            decoy_kinds=["out-of-plane", "out-of-plane", "loose"], oop_range=(3.6, 5.0),
                            tightness=[1.1, 1.5], atols=[0.01, 0.05, 0.1], noise_levels=(0.0, 1 / 64.0))


def edit_oracle(case, stats):
    from props.c01 import edit_oracle as eo
    eo(case, stats, completeness=True)


def edit_strategy(tier):
    from props.c01 import edit_case
    return edit_case()


PARTS = [
    HypPart("planted", strategy, oracle, {"quick": 6000, "thorough": 60000}),
    HypPart("edit-then-search", edit_strategy, edit_oracle, {"quick": 1500, "thorough": 15000}),
    HypPart("large-patterns", large_strategy, oracle, {"quick": 320, "thorough": 4000}),
]
