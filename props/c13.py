"""C13 — LAMMPS data files round-trip and mean what the structure says."""
import io
import os

import numpy as np
from hypothesis import strategies as st

from mv import hperm

from mv import gen_atoms, model_atoms as M, ref_lammps
from mv.quiet import silenced, workdir
from mv.runner import FuzzPart, HypPart, Violation

PROPERTY = "C13"
RULE = ("Hypothesis typed structures (1-8 atoms, thorough up to 30; 1-12 atom types; up to 12 types per term kind with "
        "tables longer than the ids in use, untyped terms with id gaps, tables without terms) with orthorhombic / "
        "tilted LAMMPS-oriented cells of all tilt signs incl. tiny tilts (1e-4), no cell, coordinates anywhere (negative, "
        "outside the box), negative charges, coefficient strings of 1-5 tokens with optional trailing comment in "
        "irregular or normalised spacing, both atom styles. Oracle (a) independent reader (mv/ref_lammps.py): header "
        "counts = section lengths, type counts >= ids used and = table lengths, box/tilt = cell, masses, atoms, terms "
        "and coefficient rows equal the structure token for token; (b) load_lmpdat reproduces order, type ids, "
        "positions/cell to 5e-7, charges, groups, masses, labels, terms with types, coefficients token for token; (c) "
        "save(load(save(x))) is byte-identical to the next pass and to save(x) when x's strings are already normalised; "
        "path and file-object I/O agree. Non-trivial = >= 2 atom types, >= 1 term kind with a table, and tilted cell or "
        "negative coordinate; distinct by hash.")
RULE += (" Since rounds 9-10: One case in six has a type with a non-atomic mass next to meaningful labels; the edit-then-write-again step also shears the cell in place (orthorhombic <-> tilted).")
ASSUMPTIONS = ["elements after reload are C14's business and are not compared",
               "coordinates, masses and charges are compared at the printed precision (%10.6f)"]

SEC = {"bond": ("Bonds", "Bond Coeffs"), "angle": ("Angles", "Angle Coeffs"), "dihedral": ("Dihedrals", "Dihedral Coeffs"),
       "improper": ("Impropers", "Improper Coeffs")}


def normalise(text, kind):
    body, sep, comment = text.partition("#")
    j = "  " if kind == "angle" else " "
    return j.join(body.split()) + ("   # " + comment.strip() if sep else "")


@st.composite
def case(draw, tier="quick"):
    spec = draw(gen_atoms.typed_structure(min_atoms=1, max_atoms=8 if tier == "quick" else 30, max_terms=6,
                                          cell="any-or-none", extras=False, dups=True,
                                          coords=draw(st.sampled_from(["in-cell", "anywhere"]))))
    # many types: up to 12 rows in a table (two-digit ids)
    if draw(hperm.integers(0, 3)) == 0:
        big = draw(st.sampled_from(["atom"] + M.KINDS))
        rows = draw(hperm.integers(10, 12))
        if big == "atom":
            from mofun.atomic_masses import ATOMIC_MASSES
            els = list(ATOMIC_MASSES.keys())
            k0 = len(spec["type_labels"])
            for t in range(k0, rows):
                e = els[(t * 7) % 90]
                spec["type_elements"].append(e)
                spec["type_labels"].append("%s_%d" % (e, t))
                spec["type_masses"].append(round(ATOMIC_MASSES[e], 6))
                if spec["pair_coeffs"]:
                    spec["pair_coeffs"].append("lj %d.%d p%d" % (t, t, t))
            spec["atom_types"] = [draw(hperm.integers(0, rows - 1)) for _ in spec["atom_types"]]
        elif spec[big + "s"] or spec[big + "_coeffs"]:
            if spec[big + "_coeffs"]:
                spec[big + "_coeffs"] = ["c%d %d.5 %s%d" % (r, r, big[0], r) + ("   # T%d" % r if r % 2 else "") for r in range(rows)]
            spec[big + "_types"] = [draw(hperm.integers(0, rows - 1)) for _ in spec[big + "_types"]]
    if all(spec["type_labels"]) and draw(hperm.integers(0, 5)) == 0:
        # a type whose mass is no element's (coarse-grained bead, dummy site): the loader then uses type ids as elements,
        # but masses and the labels written as comments still come back
        t = draw(hperm.integers(0, len(spec["type_masses"]) - 1))
        spec["type_masses"][t] = draw(st.sampled_from([72.15, 0.5, 500.25, 13.2]))
        spec["_nonatomic_mass"] = True
    if spec["cell"] is not None and draw(hperm.integers(0, 5)) == 0:
        c = np.array(spec["cell"])
        c[1, 0] = draw(st.sampled_from([1e-4, -1e-4, 2e-6, 0.0]))
        c[2, 0] = draw(st.sampled_from([0.0, 1e-4, 0.0]))
        c[2, 1] = draw(st.sampled_from([0.0, -3e-5, 0.0]))
        spec["cell"] = c.tolist()
    if draw(hperm.integers(0, 9)) == 0 and spec["pos"]:
        # hundreds of atoms (ids beyond 127 / 255 / 999 in every section) from a handful of draws
        spec = gen_atoms.inflate(spec, draw(st.sampled_from([20, 40, 140])) // max(1, len(spec["pos"]) // 2) + 2)
    else:
        # charges and coordinates with all six printed decimals in use
        spec["charges"] = [round(c + (1 if c > 0 else -1) * 1e-6 * draw(hperm.integers(0, 499)), 6) for c in spec["charges"]]
    if len(spec["pos"]) >= 3 and draw(hperm.integers(0, 7)) == 0:
        # a neutral structure whose charges have more digits than are printed: one ion of charge +Q and k counter-charges -Q/k
        # (the six-decimal roundings do not add up to zero)
        k_ = len(spec["pos"]) - 1
        Q_ = draw(st.sampled_from([1.0, 2.0, 3.0]))
        spec["charges"] = [Q_] + [-Q_ / k_] * k_
        spec["_neutral"] = True
    wide = False
    if spec["pos"] and draw(hperm.integers(0, 7)) == 0:
        # coordinates that need more than the ten characters of the usual column (unwrapped trajectories, atoms far from
        # the cell): the columns must still be separated
        wide = True
        for _ in range(draw(hperm.integers(1, 3))):
            i = draw(hperm.integers(0, len(spec["pos"]) - 1))
            spec["pos"][i][draw(hperm.integers(0, 2))] = draw(st.sampled_from([-123.456789, -1000.5, 12345.678901, -99.9999996, 100000.25]))
    if draw(hperm.integers(0, 7)) == 0:
        # an empty coefficient entry (what merging an unparameterised type leaves behind) in one of the tables
        tabs = [t for t in ["pair_coeffs"] + [k + "_coeffs" for k in M.KINDS] if len(spec[t]) >= 2]
        if tabs:
            t = draw(st.sampled_from(tabs))
            spec[t][draw(hperm.integers(0, len(spec[t]) - 1))] = ""
            spec["_empty_entry"] = t
    norm = draw(st.booleans())
    if norm:
        spec["pair_coeffs"] = [normalise(c, "pair") for c in spec["pair_coeffs"]]
        for k in M.KINDS:
            spec[k + "_coeffs"] = [normalise(c, k) for c in spec[k + "_coeffs"]]
    return {"spec": spec, "style": draw(st.sampled_from(["full", "full", "atomic"])), "normalised": norm, "wide": wide,
            "call": draw(st.sampled_from(["keyword", "keyword", "positional", "save"]))}


def save_text(a, style, form="keyword"):
    buf = io.StringIO()
    with silenced():
        if form == "positional":
            a.save_lmpdat(buf, style)              # documented order: (f, atom_format, file_comment)
        elif form == "save":
            a.save(buf, filetype="lmpdat", atom_format=style)
        else:
            a.save_lmpdat(buf, atom_format=style)
    return buf.getvalue()


def close(x, y, tol=5.1e-7):
    return abs(float(x) - float(y)) <= tol


def check_file(spec, text, style):
    try:
        p = ref_lammps.parse(text, style)
    except ref_lammps.FormatError as e:
        raise Violation("file-format", "the written file is not a well-formed LAMMPS data file: %s" % e)
    errs = ref_lammps.check_wellformed(p, style)
    if errs:
        raise Violation("file-format", errs[0])
    n = len(spec["pos"])
    sec = p["sections"]
    want_counts = {"atoms": n}
    for k in M.KINDS:
        want_counts[k + "s"] = len(spec[k + "s"])
    for k, v in want_counts.items():
        if p["counts"].get(k) != v:
            raise Violation("file-counts", "header says %r %s, structure has %d" % (p["counts"].get(k), k, v))
    if p["types"].get("atom") != len(spec["type_labels"]):
        raise Violation("file-type-counts", "header says %r atom types, structure has %d" % (p["types"].get("atom"), len(spec["type_labels"])))
    for k in M.KINDS:
        declared = p["types"].get(k, 0)
        need = len(spec[k + "_coeffs"]) or (max(spec[k + "_types"]) + 1 if spec[k + "_types"] else 0)
        if declared != need:
            raise Violation("file-type-counts", "header says %d %s types; structure has %d coefficient rows and highest id in use %s" %
                            (declared, k, len(spec[k + "_coeffs"]), max(spec[k + "_types"]) + 1 if spec[k + "_types"] else None))
    cell = spec["cell"]
    if cell is not None:
        for ax, i in (("x", 0), ("y", 1), ("z", 2)):
            lo, hi = p["box"].get(ax, (None, None))
            if lo is None or not close(lo, 0.0) or not close(hi, cell[i][i]):
                raise Violation("file-box", "%slo %shi = %r, cell diagonal %r" % (ax, ax, (lo, hi), cell[i][i]))
        tilt = (cell[1][0], cell[2][0], cell[2][1])
        shown = any(abs(round(t, 6)) > 0 for t in tilt)
        exact_nonzero = any(t != 0 for t in tilt)
        if p["tilt"] is None:
            if shown:
                raise Violation("file-tilt", "tilt factors %r not written" % (tilt,))
        else:
            if not all(close(a, b) for a, b in zip(p["tilt"], tilt)):
                raise Violation("file-tilt", "xy xz yz = %r, cell says %r" % (p["tilt"], tilt))
    elif p["box"]:
        raise Violation("file-box", "box written for a structure without cell")
    for t, (toks, comment) in enumerate(sec.get("Masses", [])):
        if not close(toks[1], spec["type_masses"][t]) or comment != spec["type_labels"][t]:
            raise Violation("file-masses", "Masses row %d: %r # %r, structure says %r # %r" % (t + 1, toks, comment, spec["type_masses"][t], spec["type_labels"][t]))
    if len(sec.get("Masses", [])) != len(spec["type_masses"]):
        raise Violation("file-masses", "%d Masses rows for %d atom types" % (len(sec.get("Masses", [])), len(spec["type_masses"])))
    for i, (toks, _) in enumerate(sec.get("Atoms", [])):
        if style == "full":
            mol, typ, q, xyz = int(toks[1]), int(toks[2]), float(toks[3]), toks[4:7]
            if mol != spec["groups"][i] + 1 or not close(q, spec["charges"][i]):
                raise Violation("file-atoms", "Atoms row %d: molecule %d charge %r, structure says group %d charge %r" % (i + 1, mol, q, spec["groups"][i], spec["charges"][i]))
        else:
            typ, xyz = int(toks[1]), toks[2:5]
        if typ != spec["atom_types"][i] + 1 or not all(close(a, b) for a, b in zip(xyz, spec["pos"][i])):
            raise Violation("file-atoms", "Atoms row %d: type %d at %r, structure says type id %d at %r" % (i + 1, typ, xyz, spec["atom_types"][i], spec["pos"][i]))
    for k in M.KINDS:
        rows = sec.get(SEC[k][0], [])
        for m, (toks, _) in enumerate(rows):
            if int(toks[1]) != spec[k + "_types"][m] + 1 or [int(x) - 1 for x in toks[2:]] != list(spec[k + "s"][m]):
                raise Violation("file-terms", "%s row %d: %r, structure says type id %d atoms %r" % (SEC[k][0], m + 1, toks, spec[k + "_types"][m], spec[k + "s"][m]))
    for name, table, kind in [("Pair Coeffs", spec["pair_coeffs"], "pair")] + [(SEC[k][1], spec[k + "_coeffs"], k) for k in M.KINDS]:
        rows = sec.get(name, [])
        if len(rows) != len(table):
            raise Violation("file-coeffs", "%s has %d rows, table has %d" % (name, len(rows), len(table)))
        for r, (toks, comment) in enumerate(rows):
            wt, wc = M.norm_coeff(table[r])
            if tuple(toks[1:]) != wt or (comment or None) != (wc or None):
                raise Violation("file-coeffs", "%s row %d: %r # %r, table entry is %r" % (name, r + 1, toks[1:], comment, table[r]))
    return p


def check_reload(spec, b, style, what):
    n = len(spec["pos"])
    if len(b.positions) != n:
        raise Violation("reload-atoms", "%s: %d atoms read back, %d written" % (what, len(b.positions), n))
    if [int(x) for x in b.atom_types] != list(spec["atom_types"]):
        raise Violation("reload-type-ids", "%s: atom type ids %r, written %r" % (what, list(b.atom_types), spec["atom_types"]))
    if n and np.abs(np.asarray(b.positions, float) - np.array(spec["pos"], float).reshape(-1, 3)).max() > 5.1e-7:
        raise Violation("reload-positions", "%s: positions differ by more than the printed precision" % what)
    if (b.cell is None) != (spec["cell"] is None):
        raise Violation("reload-cell", "%s: cell %r, written %r" % (what, b.cell, spec["cell"]))
    if spec["cell"] is not None and np.abs(np.asarray(b.cell, float) - np.array(spec["cell"], float)).max() > 5.1e-7:
        raise Violation("reload-cell", "%s: cell %r, written %r" % (what, np.asarray(b.cell).tolist(), spec["cell"]))
    if style == "full":
        if n and (np.abs(np.asarray(b.charges, float) - np.array(spec["charges"])).max() > 5.1e-7 or
                  [int(g) for g in b.groups] != list(spec["groups"])):
            raise Violation("reload-charges-groups", "%s: charges/groups %r/%r, written %r/%r" % (what, list(b.charges), list(b.groups), spec["charges"], spec["groups"]))
    if len(b.atom_type_masses) != len(spec["type_masses"]) or \
            any(abs(float(x) - y) > 5.1e-7 for x, y in zip(b.atom_type_masses, spec["type_masses"])):
        raise Violation("reload-masses", "%s: masses %r, written %r" % (what, list(b.atom_type_masses), spec["type_masses"]))
    if [str(x) for x in b.atom_type_labels] != list(spec["type_labels"]):
        raise Violation("reload-labels", "%s: labels %r, written %r" % (what, list(b.atom_type_labels), spec["type_labels"]))
    for k in M.KINDS:
        arr = np.asarray(getattr(b, k + "s"))
        terms = [[int(x) for x in t] for t in arr.reshape(len(arr), -1)] if len(arr) else []
        if terms != [list(t) for t in spec[k + "s"]] or [int(x) for x in getattr(b, k + "_types")] != list(spec[k + "_types"]):
            raise Violation("reload-terms", "%s: %ss %r types %r, written %r types %r" %
                            (what, k, terms, list(getattr(b, k + "_types")), spec[k + "s"], spec[k + "_types"]))
    for attr, table in [("pair_coeffs", spec["pair_coeffs"])] + [(M.COEFF_ATTR[k], spec[k + "_coeffs"]) for k in M.KINDS]:
        got = [M.norm_coeff(x) for x in getattr(b, attr)]
        want = [M.norm_coeff(x) for x in table]
        if got != want:
            bad = [(i, g, w) for i, (g, w) in enumerate(zip(got, want)) if g != w]
            raise Violation("reload-coeffs", "%s: %s row %s read back as %r, written %r (rows %d vs %d)" %
                            (what, attr, bad[0][0] if bad else "?", bad[0][1] if bad else None, bad[0][2] if bad else None, len(got), len(want)))


def oracle(c, stats):
    from mofun import Atoms
    spec, style = c["spec"], c["style"]
    form = c.get("call", "keyword")
    a = M.build(spec)
    try:
        t1 = save_text(a, style, form)
    except Exception as e:
        raise Violation("exception-in-save", "%s: %r (call form: %s)" % (type(e).__name__, e, form))
    check_file(spec, t1, style)
    try:
        with silenced():
            if form == "positional":
                b = Atoms.load_lmpdat(io.StringIO(t1), style)          # documented order: (f, atom_format, guess_atol)
            elif form == "save":
                b = Atoms.load(io.StringIO(t1), filetype="lmpdat", atom_format=style)
            else:
                b = Atoms.load_lmpdat(io.StringIO(t1), atom_format=style)
    except Exception as e:
        raise Violation("exception-in-load", "%s: %r" % (type(e).__name__, e))
    check_reload(spec, b, style, "load(save(x))")
    t2 = save_text(b, style)
    with silenced():
        b2 = Atoms.load_lmpdat(io.StringIO(t2), atom_format=style)
    t3 = save_text(b2, style)
    if t2 != t3:
        d = [(x, y) for x, y in zip(t2.split("\n"), t3.split("\n")) if x != y]
        raise Violation("not-idempotent", "second and third write differ, e.g. %r vs %r" % (d[0] if d else ("", "")))
    # a tilt below the printed precision is written as 0.000000 and legitimately disappears in the normalising pass
    subprec = spec["cell"] is not None and any(0 < abs(spec["cell"][i][j]) < 5.1e-7 for i, j in ((1, 0), (2, 0), (2, 1)))
    if c["normalised"] and not subprec and t1 != t2:
        d = [(x, y) for x, y in zip(t1.split("\n"), t2.split("\n")) if x != y]
        raise Violation("normalised-not-stable", "strings already normalised but first and second write differ, e.g. %r vs %r" % (d[0] if d else ("", "")))
    # path vs file object
    path = os.path.join(workdir(), "s.lmpdat")
    with silenced():
        a.save(path, atom_format=style)
        with open(path) as fh:
            tp = fh.read()
        bp = Atoms.load(path, atom_format=style)
        with open(path) as fh:
            bf = Atoms.load(fh, filetype="lmpdat", atom_format=style)
        with open(path, "w") as fh:
            a.save(fh, filetype="lmpdat", atom_format=style)
        with open(path) as fh:
            tf = fh.read()
    if tp != t1 or tf != t1:
        raise Violation("path-vs-file", "Atoms.save by path / by file object differs from save_lmpdat")
    check_reload(spec, bp, style, "Atoms.load(path)")
    check_reload(spec, bf, style, "Atoms.load(file)")
    # history on one object: edit public attributes of the object that has just been written (new type labels, as
    # retyping does; another charge; another position; another coefficient row) and write it again
    import copy as _copy
    spec2 = _copy.deepcopy(spec)
    spec2["type_labels"] = [l + "x" for l in spec["type_labels"]]
    a.atom_type_labels = list(spec2["type_labels"])
    if spec2["pos"]:
        spec2["charges"][0] = round(spec2["charges"][0] + 0.5, 6)
        a.charges[0] = spec2["charges"][0]
        spec2["pos"][-1] = [spec2["pos"][-1][0] + 0.25, spec2["pos"][-1][1], spec2["pos"][-1][2]]
        a.positions[-1] = spec2["pos"][-1]
    for k in M.KINDS:
        if spec2[k + "_coeffs"]:
            spec2[k + "_coeffs"][-1] = spec2[k + "_coeffs"][-1].split("#")[0].strip() + " 7.5"
            setattr(a, M.COEFF_ATTR[k], list(spec2[k + "_coeffs"]))
    if spec2["cell"] is not None and np.asarray(a.cell).dtype.kind == "f" and len(spec2["pos"]) % 2 == 0:
        # the cell sheared in place (s.cell[1, 0] = ...): an orthorhombic box becomes a tilted one and the other way round
        new_xy = 0.0 if abs(spec2["cell"][1][0]) > 0 else round(0.25 * spec2["cell"][0][0], 6)
        spec2["cell"][1][0] = new_xy
        a.cell[1, 0] = new_xy
        stats.count("cell-sheared-in-place-before-second-write")
    try:
        t4 = save_text(a, style)
    except Exception as e:
        raise Violation("exception-in-save", "second write after editing the object: %s: %r" % (type(e).__name__, e))
    try:
        check_file(spec2, t4, style)
    except Violation as v:
        raise Violation("second-write-" + v.kind, "the object was edited after a first write and written again: " + v.detail)
    cell = spec["cell"]
    tilted = cell is not None and any(abs(cell[i][j]) > 0 for i, j in ((1, 0), (2, 0), (2, 1)))
    neg = any(x < 0 for p in spec["pos"] for x in p)
    stats.count("style:" + style)
    stats.count("cell:%s" % ("none" if cell is None else "tilted" if tilted else "ortho"))
    stats.count("normalised:%s" % c["normalised"])
    stats.count("call:" + form)
    if spec.get("_nonatomic_mass"):
        stats.count("non-atomic-mass")
    if spec.get("_empty_entry"):
        stats.count("empty-coefficient-entry")
    if spec.get("_neutral"):
        stats.count("neutral-charges-with-many-digits")
    if c.get("wide"):
        stats.count("coordinates-wider-than-the-column")
    stats.count("atoms:%s" % ("1-30" if len(spec["pos"]) <= 30 else "31-127" if len(spec["pos"]) <= 127 else "128-255" if len(spec["pos"]) <= 255 else "256+"))
    stats.count("max-table-rows:%s" % ("10+" if max([len(spec["type_labels"])] + [len(spec[k + "_coeffs"]) for k in M.KINDS]) >= 10 else "<10"))
    gen_atoms.spec_stats(spec, stats)
    if len(spec["type_labels"]) >= 2 and any(spec[k + "_coeffs"] for k in M.KINDS) and (tilted or neg):
        stats.mark_nontrivial(c)


PARTS = [
    HypPart("roundtrip", lambda tier: case(tier), oracle, {"quick": 8000, "thorough": 60000}),
    FuzzPart("coverage-guided-roundtrip", "roundtrip", runs=5000),
]
