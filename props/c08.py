"""C08 — self-replacement is a no-op and element substitutions are reversible."""
import math
import os

import numpy as np
from hypothesis import strategies as st

from mv import hperm

from mv import gen_geom, geom, mf, ref_match, repl
from mv.quiet import silenced
from mv.runner import EnumPart, HypPart, Violation
from props.c05 import ABS_SLACK, num_slack

PROPERTY = "C08"
RULE = ("(i) planted structures with payload and terms (bonds / angles / dihedrals inside each copy = the pattern's own "
        "internal terms, among bystanders, and - with replace_all off - across the match boundary) replaced by an "
        "identical copy of the pattern, replace_all off and on: positions (mod lattice), elements, charges, groups, "
        "atom count and the sets of term tuples (canonical up to reversal) must be unchanged. (ii) site substitution A->B "
        "then B->A with single- and multi-atom site patterns whose B elements are absent from the structure: the "
        "multiset of (element, position mod lattice) is restored within a tolerance-proportional bound. (iii) after "
        "replacing all occurrences a second search for A must agree with the reference matcher run on the result (no "
        "match unless the replacement itself contains A). Real files: uio66 (linker, Zr), uio66-triclinic, hkust-1 "
        "(benzene, Cu). Non-trivial = at least one occurrence replaced and, for (i), the structure has terms or a copy "
        "crosses a boundary; distinct by hash.")
RULE += (" Since rounds 9-10: Pattern classes include mirror-pair (two candidate numberings of which one cannot be rotated into place).")
ASSUMPTIONS = ["cases whose reference groups are grey, overlap or differ from the planted copies are skipped and counted",
               "the term-set relation is asserted only when every occurrence has a unique feasible ordering"]


def canon(t):
    t = tuple(int(x) for x in t)
    return min(t, t[::-1])


@st.composite
def self_case(draw):
    case = draw(repl.replace_case(repl_kinds=["identical"], fractions=False, max_copies=3, decoys=False,
                                  pattern_classes=["generic", "generic", "chiral", "planar", "rod", "symmetric", "collinear", "single", "mirror-pair", "mirror-pair"]))
    n = len(case["ppos"])
    case["rpos"] = [list(p) for p in case["ppos"]]
    case["rels"] = list(case["pels"])
    case["shared"] = {str(i): i for i in range(n)}
    N = len(case["sels"])
    copies = case["meta"]["copies"]
    in_copy = set(i for c in copies for i in c["idx"])
    by = [i for i in range(N) if i not in in_copy]
    rall = case["replace_all"]
    pterms = {"bonds": [], "angles": [], "dihedrals": []}
    sterms = {"bonds": [], "angles": [], "dihedrals": []}
    for kind, size in (("bonds", 2), ("angles", 3), ("dihedrals", 4)):
        if n >= size:
            for _ in range(draw(hperm.integers(0, 3))):
                t = list(draw(hperm.permutations(range(n))))[:size]
                if canon(t) not in [canon(x) for x in pterms[kind]]:
                    pterms[kind].append(t)
        for c in copies:
            for t in pterms[kind]:
                sterms[kind].append([c["idx"][i] for i in t])
        pool = by if rall else list(range(N))
        if len(pool) >= size:
            for _ in range(draw(hperm.integers(0, 3))):
                t = [pool[i] for i in list(draw(hperm.permutations(range(len(pool)))))[:size]]
                inside = [i for i in t if i in in_copy]
                if rall and inside:
                    continue
                if canon(t) not in [canon(x) for x in sterms[kind]]:
                    sterms[kind].append(t)
    case["pterms"], case["sterms"] = pterms, sterms
    # the pattern's charges/groups equal the structure's for the replace_all sub-case: use copy 0's values
    case["mode"] = "self"
    return case


def build_with_terms(case):
    from mofun import Atoms
    pl = case["payload"]
    st_ = case["sterms"]
    with silenced():
        return Atoms(atom_types=list(pl["atom_types"]), positions=np.array(case["spos"], float),
                     atom_type_elements=list(pl["type_elements"]), atom_type_labels=list(pl["type_labels"]),
                     atom_type_masses=list(pl["type_masses"]), charges=list(pl["charges"]), groups=list(pl["groups"]),
                     cell=np.array(case["cell"], float),
                     bonds=st_["bonds"], bond_types=[0] * len(st_["bonds"]),
                     angles=st_["angles"], angle_types=[0] * len(st_["angles"]),
                     dihedrals=st_["dihedrals"], dihedral_types=[0] * len(st_["dihedrals"]))


def build_pattern_with_terms(case, charges=None, groups=None):
    from mofun import Atoms
    pt = case["pterms"]
    with silenced():
        return Atoms(elements=list(case["pels"]), positions=np.array(case["ppos"], float),
                     charges=charges if charges is not None else [], groups=groups if groups is not None else [],
                     bonds=pt["bonds"], bond_types=[0] * len(pt["bonds"]),
                     angles=pt["angles"], angle_types=[0] * len(pt["angles"]),
                     dihedrals=pt["dihedrals"], dihedral_types=[0] * len(pt["dihedrals"]), cell=repl.pattern_cell(case, 0))


def match_atoms(cell, old, new, tol):
    """injective map old atom -> new atom by (element, position mod lattice); returns list or raises"""
    used = set()
    out = []
    for i, a in enumerate(old):
        best, bd = None, None
        for j, b in enumerate(new):
            if j in used or b["el"] != a["el"]:
                continue
            d = geom.lattice_diff(cell, a["pos"], b["pos"])
            if bd is None or d < bd:
                best, bd = j, d
        if best is None or bd > tol:
            raise Violation("atom-moved-or-missing", "original atom %d (%s at %r) has no counterpart within %.3g (closest %r)" %
                            (i, a["el"], a["pos"].tolist(), tol, bd))
        used.add(best)
        out.append(best)
    return out


def self_oracle(case, stats):
    groups, reason = repl.analyse(case)
    if reason or not groups:
        stats.count("skipped:" + (reason or "no-match"))
        return
    n = len(case["ppos"])
    planted = {tuple(sorted(c["idx"])) for c in case["meta"]["copies"]}
    if set(groups) != planted:
        stats.count("skipped:accidental-occurrences")
        return
    single = all(len(g["orderings"]) == 1 for g in groups.values())
    rall = case["replace_all"]
    s = build_with_terms(case)
    # pattern carries copy 0's charges and groups when replace_all re-inserts atoms; with several copies charges differ,
    # so under replace_all the charges are compared only for one-copy cases
    c0 = case["meta"]["copies"][0]["idx"]
    pl = case["payload"]
    p = build_pattern_with_terms(case, charges=[pl["charges"][c0[i]] for i in range(n)], groups=[pl["groups"][c0[i]] for i in range(n)])
    try:
        new = mf.replace(s, p, p.copy(), case["atol"], case["hints"], case["seeds"], replace_all=rall)
    except Exception as e:
        raise Violation("exception-in-replace", "%s: %r" % (type(e).__name__, e))
    cell = np.array(case["cell"])
    old, res = repl.resolved_atoms(s), repl.resolved_atoms(new)
    if len(res) != len(old):
        raise Violation("atom-count", "%d atoms before, %d after replacing the pattern by itself" % (len(old), len(res)))
    eps = max(o["maxdev"] for g in groups.values() for o in g["orderings"])
    from props.c05 import amp_factor
    tol = 1e-9 if not rall else (math.sqrt(2 * n) * 2.0 * eps * amp_factor(case) + num_slack(case) + eps)
    m = match_atoms(cell, old, res, tol)
    one_copy = len(groups) == 1
    for i, j in enumerate(m):
        a, b = old[i], res[j]
        in_match = any(i in k for k in groups)
        if not rall or not in_match or (one_copy and single):
            if abs(a["charge"] - b["charge"]) > 1e-12 or a["group"] != b["group"]:
                raise Violation("charge-or-group-changed", "atom %d: charge/group %r/%r -> %r/%r" % (i, a["charge"], a["group"], b["charge"], b["group"]))
    if single:
        for kind in ("bonds", "angles", "dihedrals"):
            want = sorted(canon(t) for t in case["sterms"][kind])
            arr = getattr(new, kind)
            inv = {j: i for i, j in enumerate(m)}
            got = sorted(canon([inv[int(x)] for x in t]) for t in arr) if len(arr) else []
            if got != want:
                raise Violation("term-set-changed", "%s (original numbering) before %r, after %r (replace_all=%s)" % (kind, want, got, rall))
    nterms = sum(len(case["sterms"][k]) for k in case["sterms"])
    stats.count("self:replace_all:%s" % rall)
    stats.count("self:terms:%s" % ("yes" if nterms else "no"))
    stats.count("self:single-ordering:%s" % single)
    stats.count("self:cell:" + case["meta"]["cell_cls"])
    if nterms or any(c["crossings"] > 0 for c in case["meta"]["copies"]):
        stats.mark_nontrivial(case)


# ---------------------------------------------------------------------------------------------------------------------

@st.composite
def subst_case(draw):
    case = draw(repl.replace_case(repl_kinds=["identical"], fractions=False, max_copies=3, decoys=True,
                                  pattern_classes=["single", "single", "generic", "generic", "chiral", "planar", "rod", "symmetric", "mirror-pair", "mirror-pair"]))
    n = len(case["ppos"])
    k = draw(hperm.integers(1, n))
    change = sorted(draw(st.sets(hperm.integers(0, n - 1), min_size=k, max_size=k)))
    bels = list(case["pels"])
    # injective element map, so that B is never more symmetric than A (otherwise B->A is ambiguous by construction)
    emap = dict(zip(sorted(set(bels)), draw(hperm.permutations(["F", "Br", "Hf", "I", "Ge", "Kr"]))))
    for i in change:
        bels[i] = emap[bels[i]]
    case["bels"] = bels
    case["mode"] = "subst"
    case["replace_all"] = draw(st.booleans())
    # the first substitution may be partial (a fraction of the sites); the reverse one always replaces every B site
    case["f1"] = draw(st.sampled_from([1.0, 1.0, 1.0, 0.5, 0.34, 0.67]))
    return case


def subst_oracle(case, stats):
    groups, reason = repl.analyse(case)
    if reason or not groups:
        stats.count("skipped:" + (reason or "no-match"))
        return
    if any(len(g["orderings"]) != 1 for g in groups.values()):
        # with several feasible orderings the element pattern of B lands on a randomly chosen ordering; A->B->A is still
        # reversible, so keep the case
        pass
    s = repl.build_structure(case)
    A = mf.atoms_from(case["ppos"], case["pels"], repl.pattern_cell(case, 0))
    B = mf.atoms_from(case["ppos"], case["bels"], repl.pattern_cell(case, 1))
    kw = dict(replace_all=case["replace_all"])
    try:
        f1 = case.get("f1", 1.0)
        s1, k1 = mf.replace(s, A, B, case["atol"], case["hints"], case["seeds"], return_num_matches=True, replace_fraction=f1, **kw)
    except Exception as e:
        raise Violation("exception-in-replace", "A->B: %s: %r" % (type(e).__name__, e))
    if (f1 == 1.0 and k1 != len(groups)) or abs(k1 - f1 * len(groups)) > 0.5 + 1e-9:
        raise Violation("match-count", "A->B (fraction %r) replaced %d of %d occurrences" % (f1, k1, len(groups)))
    stats.count("subst:first-fraction:%s" % ("1" if f1 == 1.0 else "<1"))
    cell = np.array(case["cell"])
    # (iii) second search for A in the result must agree with the reference on the result
    c1 = dict(case)
    c1["spos"] = geom.wrap(cell, np.asarray(s1.positions, float)).tolist()
    c1["sels"] = list(s1.elements)
    try:
        g1 = ref_match.find_all(c1["cell"], c1["spos"], c1["sels"], case["ppos"], case["pels"], case["atol"],
                                in_thr=ref_match.in_threshold(case["ppos"], case["hints"], case["atol"]))
    except ref_match.TooAmbiguous:
        g1 = None
    idx = mf.find(s1, A, case["atol"], case["hints"], case["seeds"], what="second-search-for-A")
    if g1 is not None:
        rep = {tuple(sorted(int(x) for x in m_)) for m_ in idx}
        IN = {k for k, g in g1.items() if g["cls"] == "in"}
        ALL = set(g1)
        if not (IN <= rep <= ALL):
            raise Violation("second-search", "after replacing all occurrences of A by B a search for A reports %r; the "
                            "reference finds %r (clear) / %r (grey) in the result" % (sorted(rep), sorted(IN), sorted(ALL - IN)))
        stats.count("subst:A-found-again:%s" % bool(rep))
    # B -> A is only well-defined when B occurs in the intermediate structure exactly at the replaced sites
    cB = dict(c1)
    cB["pels"] = case["bels"]
    gB, reasonB = repl.analyse(cB)
    if reasonB or len(gB) != k1:
        stats.count("skipped:B-occurrences-ambiguous")
        return
    try:
        s2, k2 = mf.replace(s1, B, A, case["atol"], case["hints"], case["seeds"], return_num_matches=True, **kw)
    except Exception as e:
        raise Violation("exception-in-replace", "B->A: %s: %r" % (type(e).__name__, e))
    if k2 < k1:
        raise Violation("not-reversible", "A->B replaced %d sites, B->A found only %d of them" % (k1, k2))
    old, res = repl.resolved_atoms(s), repl.resolved_atoms(s2)
    if len(old) != len(res):
        raise Violation("not-reversible", "%d atoms originally, %d after A->B->A" % (len(old), len(res)))
    eps = max(o["maxdev"] for g in groups.values() for o in g["orderings"])
    from props.c05 import amp_factor
    n = len(case["ppos"])
    tol = 2 * (math.sqrt(2 * n) * 2.0 * max(eps, 1e-12) * amp_factor(case) + num_slack(case)) + 2 * eps
    try:
        match_atoms(cell, old, res, tol)
    except Violation as v:
        raise Violation("not-reversible", "A->B->A does not restore the structure: " + v.detail)
    stats.count("subst:site-size:%s" % ("1" if n == 1 else "2+"))
    stats.count("subst:replace_all:%s" % case["replace_all"])
    stats.count("subst:cell:" + case["meta"]["cell_cls"])
    stats.mark_nontrivial(case)


# ---------------------------------------------------------------------------------------------------------------------

def _root():
    import mofun
    return os.path.dirname(os.path.dirname(os.path.abspath(mofun.__file__)))


REAL = [
    ("uio66-Zr", "tests/uio66/uio66.cif", "Zr", 0.05, "quick"),
    ("uio66-linker-self", "tests/uio66/uio66.cif", "tests/uio66/uio66-linker.cml", 0.05, "quick"),
    ("uio66-tri-linker-self", "tests/uio66/uio66-triclinic.lmpdat", "tests/uio66/uio66-linker.cml", 0.2, "thorough"),
    ("uio66-tri-Zr", "tests/uio66/uio66-triclinic.lmpdat", "Zr", 0.05, "thorough"),
    ("hkust1-Cu", "tests/hkust-1/hkust-1-with-bonds.cif", "Cu", 0.05, "thorough"),
    ("hkust1-benzene-self", "tests/hkust-1/hkust-1-with-bonds.cif", "tests/molecules/benzene.xyz", 0.05, "thorough"),
]


def real_cases(tier, seed):
    out = []
    for name, spath, ppath, atol, t in REAL:
        if tier == "thorough" or t == "quick":
            for rall in (False, True):
                out.append({"real": name, "replace_all": rall, "seeds": [seed, seed + 1]})
    return out


def real_oracle(rc, stats):
    from mofun import Atoms
    import ase.io
    name, spath, ppath, atol, _ = [r for r in REAL if r[0] == rc["real"]][0]
    root = _root()
    with silenced():
        s = Atoms.load(os.path.join(root, spath))
        if ppath in ("Zr", "Cu"):
            p = Atoms(elements=[ppath], positions=[[0., 0., 0.]])
        elif ppath.endswith(".xyz"):
            p = Atoms.from_ase_atoms(ase.io.read(os.path.join(root, ppath)))
        else:
            p = Atoms.load(os.path.join(root, ppath))
    # the pattern files carry bonds the CIF structures do not have: use geometry and elements only, so that the
    # replacement really is identical to what it replaces
    p = mf.atoms_from(np.asarray(p.positions, float), list(p.elements))
    cell = np.asarray(s.cell, float)
    rall = rc["replace_all"]
    old = repl.resolved_atoms(s)
    if ppath in ("Zr", "Cu"):
        B = mf.atoms_from([[0., 0., 0.]], ["Hf"])
        s1, k1 = mf.replace(s, p, B, atol, seeds=rc["seeds"], return_num_matches=True, replace_all=rall)
        if k1 != sum(1 for e in s.elements if e == ppath):
            raise Violation("match-count", "%s: %d sites replaced, structure has %d" % (name, k1, sum(1 for e in s.elements if e == ppath)))
        if ppath in list(s1.elements):
            raise Violation("second-search", "%s atoms remain after replacing all of them" % ppath)
        if mf.find(s1, p, atol, seeds=rc["seeds"]):
            raise Violation("second-search", "search for %s finds matches after all were replaced" % ppath)
        s2, k2 = mf.replace(s1, B, p, atol, seeds=rc["seeds"], return_num_matches=True, replace_all=rall)
        res = repl.resolved_atoms(s2)
        if len(res) != len(old) or k2 != k1:
            raise Violation("not-reversible", "%s: %d atoms -> %d, %d/%d sites" % (name, len(old), len(res), k1, k2))
        match_atoms(cell, old, res, 1e-4)
    else:
        try:
            new, k = mf.replace(s, p, p.copy(), atol, seeds=rc["seeds"], return_num_matches=True, replace_all=rall)
        except Exception as e:
            raise Violation("exception-in-replace", "%s: %s: %r" % (name, type(e).__name__, e))
        res = repl.resolved_atoms(new)
        if len(res) != len(old):
            raise Violation("atom-count", "%s: %d atoms before, %d after self-replacement of %d matches" % (name, len(old), len(res), k))
        # real linkers deviate from the pattern by up to the tolerance: re-inserted atoms land on the ideal pattern
        m = match_atoms(cell, old, res, 1e-9 if not rall else 3 * atol)
        if not rall:
            inv = {j: i for i, j in enumerate(m)}
            for kind in ("bonds", "angles", "dihedrals"):
                a0, a1 = getattr(s, kind), getattr(new, kind)
                want = sorted(canon(t) for t in a0) if len(a0) else []
                got = sorted(canon([inv[int(x)] for x in t]) for t in a1) if len(a1) else []
                if want != got:
                    raise Violation("term-set-changed", "%s: %s differ after self-replacement (%d vs %d)" % (name, kind, len(want), len(got)))
        if k < 1:
            raise Violation("match-count", "%s: no occurrence found" % name)
    stats.count("real:" + name)
    stats.mark_nontrivial(rc)


PARTS = [
    HypPart("self-replacement", lambda tier: self_case(), self_oracle, {"quick": 2000, "thorough": 25000}),
    HypPart("substitution", lambda tier: subst_case(), subst_oracle, {"quick": 1500, "thorough": 20000}),
    EnumPart("real-files", real_cases, real_oracle, exhaustive=lambda tier: False, chunk=1),
]
