"""C17 — bond detection equals the minimum-image covalent-radius rule."""
import itertools
import math

import numpy as np
from hypothesis import strategies as st

from mv import hperm

from mv import gen_geom, geom
from mv.quiet import silenced
from mv.runner import FuzzPart, EnumPart, HypPart, Violation

PROPERTY = "C17"
RULE = ("Exhaustive sweep over all unordered element pairs of the covalent-radius table (two-atom structures, elements "
        "built through explicit atom types) x placements at distance cutoff*(1 +- d), d in {1e-6, 1e-3, 0.2}, in a "
        "deterministic pseudo-random direction through the home image or a face / edge / corner image, on orthorhombic "
        "and tilted cells with perpendicular widths > 5.7 A and without a cell; plus Hypothesis structures of 2-12 "
        "atoms with near-cutoff pairs, shift+wrap and permutation variants. Oracle: brute force over a 5x5x5 image "
        "block - pair (i<j) bonded iff min distance < r_i + r_j (+0.45 if either is a non-metal); result rows exactly "
        "those pairs, each once, i<j; same set after shift+wrap; renamed set after permutation. Non-trivial = a pair "
        "within 0.2% of its cutoff or bonded only through a non-identity image; distinct by hash.")
RULE += (" Since rounds 9-10: The edit history has a third step: one atom deleted and one atom of another existing type appended (atom and type counts unchanged), detection again on the same object.")
ASSUMPTIONS = ["the radius table is data taken from the module under test; the non-metal list is pinned in the harness (H D B C N O F P S Cl Se Br I Si) so that a change of the list counts as a change of behaviour",
               "distances within 1e-9 relative of the cutoff are not generated"]


def tables():
    from mofun.detect_bonds import COVALENT_RADII, NON_METALS
    return dict(COVALENT_RADII), list(NON_METALS)


# the statement's non-metal list, written out independently of the module (a change of the module's list is a change of
# behaviour the property forbids)
NON_METALS_SPEC = ['H', 'D', 'B', 'C', 'N', 'O', 'F', 'P', 'S', 'Cl', 'Se', 'Br', 'I', 'Si']


def cutoff(e1, e2, radii):
    c = radii[e1] + radii[e2]
    if e1 in NON_METALS_SPEC or e2 in NON_METALS_SPEC:
        c += 0.45
    return c


def build(els, pos, cell):
    from mofun import Atoms
    types = list(dict.fromkeys(els))
    with silenced():
        return Atoms(atom_types=[types.index(e) for e in els], positions=np.array(pos, float),
                     atom_type_elements=types, atom_type_labels=types, atom_type_masses=[1.0] * len(types),
                     cell=None if cell is None else (np.array(cell) if all(isinstance(x, int) for r in cell for x in r) else np.array(cell, float)))


def reference(els, pos, cell, radii):
    pos = np.asarray(pos, float)
    n = len(pos)
    offs = np.zeros((1, 3)) if cell is None else geom.image_block(2) @ np.asarray(cell, float)
    bonds, info = set(), {}
    for i in range(n):
        for j in range(i + 1, n):
            d = np.sqrt(((pos[i] - pos[j] + offs) ** 2).sum(-1))
            dmin = float(d.min())
            c = cutoff(els[i], els[j], radii)
            direct = float(np.linalg.norm(pos[i] - pos[j]))
            info[(i, j)] = (dmin, c, direct)
            if dmin < c:
                bonds.add((i, j))
    return bonds, info


def detect(els, pos, cell):
    from mofun.detect_bonds import detect_bonds
    a = build(els, pos, cell)
    try:
        with silenced():
            b = detect_bonds(a)
    except Exception as e:
        raise Violation("exception-in-detect-bonds", "%s: %r" % (type(e).__name__, e))
    rows = [tuple(int(x) for x in r) for r in np.asarray(b).reshape(-1, 2)] if len(b) else []
    return rows


def check(els, pos, cell, radii, label=""):
    rows = detect(els, pos, cell)
    want, info = reference(els, pos, cell, radii)
    if len(set(rows)) != len(rows):
        dup = [r for r in set(rows) if rows.count(r) > 1]
        raise Violation("duplicate-bond", "%spair(s) %r reported more than once: %r" % (label, dup, rows))
    for (i, j) in rows:
        if not i < j:
            raise Violation("pair-order", "%srow (%d,%d) is not i<j" % (label, i, j))
    got = set(rows)
    if got != want:
        miss, extra = sorted(want - got), sorted(got - want)
        k = (miss or extra)[0]
        raise Violation("bond-set", "%spair %r (%s-%s): min-image distance %.7f, cutoff %.7f (direct distance %.4f): %s" %
                        (label, k, els[k[0]], els[k[1]], info[k][0], info[k][1], info[k][2],
                         "bond missing" if miss else "spurious bond"))
    return want, info


# ---------------------------------------------------------------------------------------------------------------------

def _dir(k):
    # deterministic well-spread unit vector
    z = ((k * 0.6180339887) % 1.0) * 2 - 1
    phi = (k * 2.399963229) % (2 * math.pi)
    r = math.sqrt(max(0.0, 1 - z * z))
    return np.array([r * math.cos(phi), r * math.sin(phi), z])


IMAGES = [(0, 0, 0), (1, 0, 0), (0, -1, 0), (0, 0, 1), (1, 1, 0), (-1, 0, 1), (0, 1, -1), (1, 1, 1), (-1, 1, -1), (1, -1, -1)]
CELLS = {
    "none": None,
    "ortho": [[6.0, 0, 0], [0, 7.5, 0], [0, 0, 9.0]],
    "ortho-int": [[6, 0, 0], [0, 8, 0], [0, 0, 9]],          # a cell written with integer entries
    "tilt-int": [[8, 0, 0], [3, 8, 0], [2, -2, 9]],
    "tilt+": [[8.0, 0, 0], [3.5, 8.0, 0], [2.0, 2.5, 8.5]],
    "tilt-": [[8.0, 0, 0], [-3.5, 8.0, 0], [2.5, -3.0, 9.0]],
}


def pair_cases(tier, seed):
    radii, _ = tables()
    els = list(radii.keys())
    out = []
    k = seed
    deltas = [1e-6, -1e-6, 1e-3, -1e-3, 0.2, -0.2]
    cellnames = list(CELLS)
    for a, b in itertools.combinations_with_replacement(els, 2):
        for d in deltas:
            k += 1
            cn = cellnames[k % len(cellnames)]
            img = IMAGES[(k // 4) % len(IMAGES)] if cn != "none" else (0, 0, 0)
            out.append({"els": [a, b], "delta": d, "cell": cn, "img": list(img), "k": k})
        # the distance exactly equal to the cutoff ("below" is strict): no cell, the pair along one coordinate axis, only for
        # pairs whose cutoff is the same floating-point number in whatever order the three terms are added
        ra, rb = radii[a], radii[b]
        nm = 0.45 if (a in NON_METALS_SPEC or b in NON_METALS_SPEC) else 0.0
        sums = {(ra + rb) + nm, ra + (rb + nm), (ra + nm) + rb, (rb + ra) + nm, rb + (ra + nm), (nm + ra) + rb, (nm + rb) + ra}
        if len(sums) == 1:
            k += 1
            out.append({"els": [a, b], "tie": True, "axis": k % 3, "k": k})
    return out


def pair_oracle(case, stats):
    radii, nonmetals = tables()
    a, b = case["els"]
    c = cutoff(a, b, radii)
    if case.get("tie"):
        p2 = [0.0, 0.0, 0.0]
        p2[case["axis"]] = c if case["k"] % 2 else -c            # |p2 - p1| is exactly the cutoff
        els, pos = ([a, b], [[0.0, 0.0, 0.0], p2]) if case["k"] % 4 < 2 else ([b, a], [p2, [0.0, 0.0, 0.0]])
        rows = detect(els, pos, None)
        if rows:
            raise Violation("bond-set", "%s-%s at a distance of exactly the cutoff %r (no cell, along axis %d): reported bonded %r; "
                            "bonded means *below* the cutoff" % (a, b, c, case["axis"], rows))
        stats.count("exactly-at-cutoff")
        stats.mark_nontrivial(case)
        return
    cell = CELLS[case["cell"]]
    dist = c * (1 + case["delta"])
    u = _dir(case["k"])
    if cell is None:
        p1 = np.array([1.0, 2.0, 3.0])
        p2 = p1 + u * dist
        pos = [p1, p2]
    else:
        C = np.array(cell, float)
        w = geom.perp_widths(C)
        if w.min() <= 5.7:
            raise AssertionError("cell too small")
        img = np.array(case["img"], float)
        # unit normals of the faces (pointing to increasing fractional coordinate)
        rec = np.linalg.inv(C).T
        nhat = rec / np.linalg.norm(rec, axis=1)[:, None]
        f = np.array([0.37, 0.41, 0.29]) + 0.15 * _dir(case["k"] + 7)
        if img.any():
            # the first atom sits a fraction t of the bond length inside the faces to be crossed, the bond points outwards
            # through them: the pair is then bonded only through a non-identity image after wrapping
            t = (0.03, 0.5, 0.93)[case["k"] % 3]
            u0 = (img[:, None] * nhat).sum(axis=0) + 0.15 * u
            u = u0 / np.linalg.norm(u0)
            for ax in range(3):
                if img[ax] != 0:
                    comp = abs(float(np.dot(u, nhat[ax])))
                    f[ax] = (1.0 if img[ax] > 0 else 0.0) - img[ax] * t * dist * comp / w[ax]
        p1 = geom.cart(C, np.clip(f, 0.0, 0.999999))
        p2 = geom.wrap(C, p1 + u * dist)
        pos = [p1, p2]
    els = [a, b]
    if case["k"] % 2:
        els, pos = [b, a], [pos[1], pos[0]]
    want, info = check(els, pos, cell, radii)
    dmin, cc, direct = info[(0, 1)]
    if abs(dmin / cc - 1) < 1e-9:
        return
    stats.count("cell:" + case["cell"])
    stats.count("image:%s" % ("home" if direct - dmin < 1e-9 else "other"))
    stats.count("delta:%g" % case["delta"])
    stats.count("bonded:%s" % bool(want))
    if abs(dmin / cc - 1) < 2e-3 or (want and direct - dmin > 1e-9):
        stats.mark_nontrivial(case)


# ---------------------------------------------------------------------------------------------------------------------

@st.composite
def structure_case(draw):
    radii, _ = tables()
    els_all = list(radii.keys())
    common = ["H", "C", "N", "O", "Zr", "Cu", "Zn", "Cl", "Se", "Li", "Cs", "Fr", "D"]
    n = draw(hperm.integers(2, 12))
    ck = draw(st.sampled_from(["none", "ortho", "tilt", "tilt-neg", "left-handed", "ortho-permuted"]))
    if ck == "none":
        cell = None
        C = np.eye(3) * 12.0
    else:
        cell, _ = draw(gen_geom.cell_for(5.7, classes=[ck], tightness=[1.02, 1.3, 2.0]))
        C = np.array(cell)
    els = [draw(st.sampled_from(common + els_all)) for _ in range(n)]
    pos = []
    for i in range(n):
        if i > 0 and draw(st.booleans()):
            # near-cutoff partner of an earlier atom, possibly through an image
            j = draw(hperm.integers(0, i - 1))
            c = cutoff(els[i], els[j], radii)
            d = c * (1 + draw(st.sampled_from([1e-6, -1e-6, 1e-3, -1e-3, 0.05, -0.05, 0.3, -0.3])))
            img = np.array([draw(hperm.integers(-1, 1)) for _ in range(3)], float) if cell is not None else np.zeros(3)
            p = np.array(pos[j]) + img @ C + draw(gen_geom.unit_vector()) * d
        else:
            p = geom.cart(C, [draw(st.floats(0, 0.999)) for _ in range(3)])
        if cell is not None:
            p = geom.wrap(C, p)
        pos.append(np.asarray(p, float).tolist())
    if cell is not None and draw(hperm.integers(0, 5)) == 0:
        # the same kind of cell written with integer entries (rounded up, so the widths only grow)
        cell = [[int(np.ceil(x)) if x > 0 else int(np.floor(x)) for x in row] for row in cell]
        C = np.array(cell, float)
        if geom.perp_widths(C).min() > 5.7:
            pos = [geom.wrap(C, p).tolist() for p in pos]
            ck = ck + "-int"
        else:
            cell = C.tolist()
    hub = None
    if draw(hperm.integers(0, 9)) == 0:
        # a crowded site: one large atom with 24-36 small atoms within bonding distance (a solvated ion, a disordered
        # site with all alternatives listed); the hub is listed before, among or after its partners
        hub = draw(st.sampled_from(["Cs", "Fr", "Ba", "Rb", "K"]))
        light = draw(st.sampled_from(["H", "H", "F", "D"]))
        m = draw(hperm.integers(24, 36))
        c = cutoff(hub, light, radii)
        centre = geom.cart(C, [draw(st.floats(0, 0.999)) for _ in range(3)])
        Rh = np.asarray(draw(gen_geom.random_rotation()))
        shell = []
        for q in range(m):
            z = 1 - 2 * (q + 0.5) / m
            phi = q * 2.399963229728653
            u = np.array([np.sqrt(1 - z * z) * np.cos(phi), np.sqrt(1 - z * z) * np.sin(phi), z]) @ Rh.T
            shell.append(centre + u * c * (1 + draw(st.sampled_from([-0.05, -0.05, -0.2, -1e-3, 1e-3, 0.05]))))
        keep = min(n, 3)
        where = draw(hperm.integers(0, keep))
        new_els = els[:where] + [hub] + els[where:keep] + [light] * m
        new_pos = pos[:where] + [centre.tolist()] + pos[where:keep] + [np.asarray(x).tolist() for x in shell]
        if draw(st.booleans()):
            order = list(draw(hperm.permutations(range(len(new_els)))))
            new_els, new_pos = [new_els[i] for i in order], [new_pos[i] for i in order]
        els, pos = new_els, [geom.wrap(C, x).tolist() if cell is not None else list(x) for x in new_pos]
        n = len(els)
    xf = draw(st.sampled_from(["shift", "permute", "none", "edit"]))
    case = {"els": els, "pos": pos, "cell": cell, "xf": xf, "cell_cls": ck, "hub": hub}
    if xf == "shift":
        case["v"] = [draw(st.floats(-15, 15)) for _ in range(3)]
    elif xf == "permute":
        case["perm"] = list(draw(hperm.permutations(range(n))))
    elif xf == "edit":
        # history on one object: detect, edit cell / positions in place, detect again
        case["stretch"] = [draw(st.sampled_from([1.0, 1.25, 1.6])) for _ in range(3)]
        case["move"] = [draw(hperm.integers(0, n - 1)), [draw(st.floats(0, 0.999)) for _ in range(3)]]
    return case


def structure_oracle(case, stats):
    radii, _ = tables()
    els, pos, cell = case["els"], case["pos"], case["cell"]
    want, info = check(els, pos, cell, radii)
    # skip cases in which some pair sits numerically on the cutoff
    if any(abs(v[0] / v[1] - 1) < 1e-9 for v in info.values()):
        stats.count("skipped:on-cutoff")
        return
    if case["xf"] == "shift":
        p2 = np.array(pos) + np.array(case["v"])
        if cell is not None:
            p2 = geom.wrap(cell, p2)
        w2, info2 = reference(els, p2, cell, radii)
        if all(abs(v[0] / v[1] - 1) > 1e-7 for v in info2.values()):
            rows = set(detect(els, p2, cell))
            if rows != want:
                raise Violation("shift-changes-bonds", "after shifting by %r and wrapping: %r vs %r" % (case["v"], sorted(rows), sorted(want)))
    elif case["xf"] == "permute":
        perm = case["perm"]
        rows = detect([els[k] for k in perm], [pos[k] for k in perm], cell)
        back = set(tuple(sorted((perm[i], perm[j]))) for i, j in rows)
        if back != want or len(rows) != len(want):
            raise Violation("permutation-changes-bonds", "after reordering by %r: %r vs %r" % (perm, sorted(back), sorted(want)))
    elif case["xf"] == "edit":
        from mofun.detect_bonds import detect_bonds
        a = build(els, pos, cell)
        with silenced():
            detect_bonds(a)
            C2 = None
            if cell is not None:
                for ax in range(3):
                    f_ = case["stretch"][ax]
                    if np.asarray(a.cell).dtype.kind in "iu":
                        f_ = 2 if f_ > 1.5 else 1                 # an integer-typed cell is stretched by an integer factor
                    a.cell[ax, :] *= f_                            # in-place edit of the cell (atoms stay inside)
                C2 = np.array(a.cell, float)
            j, fr = case["move"]
            a.positions[j] = geom.cart(C2 if C2 is not None else np.eye(3) * 12.0, fr)
            p2 = np.array(a.positions, float)
            try:
                b2 = detect_bonds(a)
            except Exception as e:
                raise Violation("exception-in-detect-bonds", "second call on an edited object: %s: %r" % (type(e).__name__, e))
        rows = set(tuple(int(x) for x in r) for r in np.asarray(b2).reshape(-1, 2)) if len(b2) else set()
        w2, info2 = reference(els, p2, None if C2 is None else C2.tolist(), radii)
        if all(abs(v[0] / v[1] - 1) > 1e-7 for v in info2.values()) and rows != w2:
            k = sorted(rows ^ w2)[0]
            raise Violation("stale-state-after-edit", "detect_bonds called again on the same object after editing cell/positions "
                            "in place: pair %r min-image distance %.5f cutoff %.5f is %s" %
                            (k, info2[k][0], info2[k][1], "missing" if k in w2 else "spurious"))
        # third step on the same object: one atom taken out, another one of a type the structure already has put in
        # (defect / substitution; atom and type counts stay what they were), detect again
        types = list(dict.fromkeys(els))
        d = case["move"][0]
        others = [t for t in types if t != els[d]]
        if others and len(els) >= 2:
            from mofun import Atoms
            newel = others[(d + len(els)) % len(others)]
            with silenced():
                newpos = np.array(a.positions[d], float)
                del a[[d]]
                a.extend(Atoms(atom_types=[types.index(newel)], positions=[newpos], atom_type_elements=types,
                               atom_type_labels=types, atom_type_masses=[1.0] * len(types)), offsets=(0, 0, 0, 0, 0))
                try:
                    b3 = detect_bonds(a)
                except Exception as e:
                    raise Violation("exception-in-detect-bonds", "third call after delete + extend: %s: %r" % (type(e).__name__, e))
            els3 = [e for k, e in enumerate(els) if k != d] + [newel]
            p3 = np.array([x for k, x in enumerate(p2) if k != d] + [newpos], float)
            if np.abs(np.asarray(a.positions, float) - p3).max() > 1e-12:
                stats.count("skipped:substitution-model-mismatch")
            else:
                rows3 = set(tuple(int(x) for x in r) for r in np.asarray(b3).reshape(-1, 2)) if len(b3) else set()
                w3, info3 = reference(els3, p3, None if C2 is None else C2.tolist(), radii)
                if all(abs(v[0] / v[1] - 1) > 1e-7 for v in info3.values()) and rows3 != w3:
                    k = sorted(rows3 ^ w3)[0]
                    raise Violation("stale-state-after-substitution", "detect_bonds on the same object after del atoms[[%d]] and "
                                    "extend by one %s atom: pair %r (%s-%s) min-image distance %.5f cutoff %.5f is %s" %
                                    (d, newel, k, els3[k[0]], els3[k[1]], info3[k][0], info3[k][1], "missing" if k in w3 else "spurious"))
                stats.count("substituted-an-atom-then-detected-again")
    stats.count("cell:" + case["cell_cls"])
    stats.count("xf:" + case["xf"])
    if case.get("hub"):
        stats.count("crowded-site(24+ partners)")
    stats.count("bonds:%s" % (len(want) if len(want) < 5 else "5+"))
    nt = any(abs(v[0] / v[1] - 1) < 2e-3 for v in info.values()) or any(info[k][2] - info[k][0] > 1e-9 for k in want)
    if nt:
        stats.mark_nontrivial(case)


PARTS = [
    EnumPart("all-element-pairs", pair_cases, pair_oracle, chunk=2000),
    HypPart("structures", lambda tier: structure_case(), structure_oracle, {"quick": 8000, "thorough": 60000}),
    FuzzPart("coverage-guided-structures", "structures", runs=5000),
]
