"""C04 — replacement changes exactly the matched atoms and nothing else."""
import itertools

import numpy as np

from mv import gen_geom, geom, mf, repl
from mv.runner import HypPart, Violation

PROPERTY = "C04"
RULE = ("Planted structures (all cell/pose/boundary classes, decoys) whose atoms carry a payload (unique charge tags, "
        "groups, explicit atom types with labels and masses) x a replacement pattern derived from the search pattern "
        "(empty / smaller / equal / larger / disjoint / identical; shared atoms bit-identical, almost-shared atoms 1e-3 "
        "apart, element changes in place) x replace fraction {0, 1, exact ties k/(2M), uniform} x replace_all on/off x "
        "RNG seeds. Cases whose reference groups are grey or overlap are outside C04's domain and are skipped "
        "(counted). Oracle = accounting model written from the statement (atom and per-element counts, removed atoms = "
        "search-only atoms of k distinct found groups under some feasible ordering, every other atom keeps position / "
        "element / label / mass / charge / group, shared atoms keep position / charge / group, k within 0.5 of f*M, "
        "inputs deep-compared with snapshots). Non-trivial = k >= 1 and at least one bystander atom; distinct by hash.")
ASSUMPTIONS = ["which k matches are chosen is random and not asserted",
               "identity of atoms is carried by unique charge tags (structure: +-0.001*i, replacement pattern: 5.00+0.01*j)"]


def oracle(case, stats):
    groups, reason = repl.analyse(case)
    if reason:
        stats.count("skipped:" + reason)
        return
    s = repl.build_structure(case)
    sp = repl.build_search(case)
    rp = repl.build_replace(case)
    snap = (mf.snapshot(s), mf.snapshot(sp), mf.snapshot(rp))
    f, rall = case["f"], case["replace_all"]
    try:
        new, k = mf.replace(s, sp, rp, case["atol"], case["hints"], case["seeds"], replace_fraction=f,
                            replace_all=rall, return_num_matches=True)
    except Exception as e:
        raise Violation("exception-in-replace", "%s: %r" % (type(e).__name__, e))
    if (mf.snapshot(s), mf.snapshot(sp), mf.snapshot(rp)) != snap:
        names = ["structure", "search pattern", "replacement pattern"]
        bad = [n for n, a, b in zip(names, snap, (mf.snapshot(s), mf.snapshot(sp), mf.snapshot(rp))) if a != b]
        raise Violation("input-modified", "%s modified by replace_pattern_in_structure" % ", ".join(bad))
    M = len(groups)
    if abs(k - f * M) > 0.5 + 1e-9 or (f == 1.0 and k != M) or not (0 <= k <= M):
        raise Violation("match-count", "fraction %r of %d found matches: reported %r replaced" % (f, M, k))
    sh, s_only, r_only = repl.shared_maps(case)
    if rall or len(case["rpos"]) == 0:
        s_only = list(range(len(case["ppos"])))
        r_only = list(range(len(case["rpos"])))
        sh = {}
    N = len(case["spos"])
    old = repl.resolved_atoms(s)
    res = repl.resolved_atoms(new)
    if len(res) != N - k * len(s_only) + k * len(r_only):
        raise Violation("atom-count", "N=%d, k=%d, |S only|=%d, |R only|=%d: result has %d atoms, expected %d" %
                        (N, k, len(s_only), len(r_only), len(res), N - k * len(s_only) + k * len(r_only)))
    # identity through the charge tags
    tag_old = {round(a["charge"], 6): i for i, a in enumerate(old)}
    rtags = {round(c, 6): j for j, c in enumerate(case["rcharges"])}
    survivors, inserted = {}, []
    for a in res:
        t = round(a["charge"], 6)
        if t in tag_old:
            if tag_old[t] in survivors:
                raise Violation("atom-duplicated", "original atom %d appears twice in the result" % tag_old[t])
            survivors[tag_old[t]] = a
        elif t in rtags:
            inserted.append((rtags[t], a))
        else:
            raise Violation("unknown-atom", "result atom with charge %r is neither an original atom nor a replacement-"
                            "pattern atom" % a["charge"])
    removed = set(range(N)) - set(survivors)
    in_group = {}
    for key in groups:
        for i in key:
            in_group[i] = key
    stray = [i for i in removed if i not in in_group]
    if stray:
        raise Violation("bystander-removed", "atom(s) %r belong to no found match but were removed" % sorted(stray))
    replaced = []
    for key, g in groups.items():
        rem = removed & set(key)
        feas_sets = [frozenset(o["idx"][j] for j in s_only) for o in g["orderings"]]
        if rem and frozenset(rem) in feas_sets:
            replaced.append(key)
        elif rem:
            raise Violation("wrong-atoms-removed", "match %r: removed atoms %r are not the search-only atoms under any "
                            "feasible ordering (candidates %r)" % (key, sorted(rem), [sorted(x) for x in feas_sets]))
    if s_only and len(replaced) != k:
        raise Violation("replaced-count", "%d matches lost their search-only atoms but %d were reported replaced" %
                        (len(replaced), k))
    # inserted atoms: k copies of each replacement-only atom, with the pattern's element
    cnt = {}
    for j, a in inserted:
        cnt[j] = cnt.get(j, 0) + 1
        if a["el"] != case["rels"][j]:
            raise Violation("inserted-element", "inserted copy of replacement atom %d has element %s, pattern says %s" %
                            (j, a["el"], case["rels"][j]))
    want = {j: k for j in r_only} if k else {}
    if cnt != want:
        raise Violation("inserted-atoms", "inserted copies per replacement atom %r, expected %r (k=%d, shared=%r)" %
                        (cnt, want, k, sh))
    # per-element counts
    from collections import Counter
    exp = Counter(a["el"] for a in old)
    for _ in range(k):
        exp.subtract(Counter(case["pels"][i] for i in s_only))
        exp.update(Counter(case["rels"][j] for j in r_only))
    got = Counter(a["el"] for a in res)
    if +exp != +got:
        raise Violation("element-counts", "expected %r, got %r" % (dict(+exp), dict(got)))
    # every survivor keeps its position; atoms outside replaced matches keep everything
    cell = np.array(case["cell"])
    replaced_atoms = set(i for key in replaced for i in key)
    if not s_only:
        replaced_atoms = set(in_group)      # cannot tell which were replaced: only position/charge/group are checked
    nby = 0
    for i, a in survivors.items():
        o = old[i]
        if geom.lattice_diff(cell, a["pos"], o["pos"]) > 1e-8:
            raise Violation("survivor-moved", "atom %d moved from %r to %r" % (i, o["pos"].tolist(), a["pos"].tolist()))
        if a["group"] != o["group"] or a["el"] != o["el"]:
            raise Violation("survivor-changed", "atom %d: group/element %r/%r -> %r/%r" % (i, o["group"], o["el"], a["group"], a["el"]))
        if i not in replaced_atoms:
            nby += 1
            if a["label"] != o["label"] or abs(a["mass"] - o["mass"]) > 1e-12:
                raise Violation("bystander-changed", "atom %d outside every replaced match: label/mass %r/%r -> %r/%r" %
                                (i, o["label"], o["mass"], a["label"], a["mass"]))
    # the result must not share arrays with the inputs: overwrite the result in place and look at the inputs again
    mf.scribble(new)
    if (mf.snapshot(s), mf.snapshot(sp), mf.snapshot(rp)) != snap:
        names = ["structure", "search pattern", "replacement pattern"]
        bad = [n for n, a, b in zip(names, snap, (mf.snapshot(s), mf.snapshot(sp), mf.snapshot(rp))) if a != b]
        raise Violation("result-aliases-input", "modifying the returned structure in place changes the %s (shared arrays)" % ", ".join(bad))
    meta = case["meta"]
    stats.count("repl:" + meta["repl_kind"])
    stats.count("f:" + meta["f_kind"])
    stats.count("replace_all:%s" % rall)
    stats.count("shared:%s" % ("yes" if sh else "no"))
    d = case.get("pdress")
    stats.count("patterns:%s" % ("plain" if not d else "own-labels" + ("+extra-columns" if d["rextra"] or d["sextra"] else "")))
    stats.count("cell:" + meta["cell_cls"])
    stats.count("k:%s" % (k if k < 4 else "4+"))
    for c in meta["copies"]:
        stats.count("crossings:%d" % c["crossings"])
    if k >= 1 and nby >= 1:
        stats.mark_nontrivial(case)


# patterns whose occurrences have several candidate numberings of which only some can be rotated into place get extra weight:
# there the choice of numbering decides which atoms are removed
CLASSES = gen_geom.PATTERN_CLASSES + ["mirror-pair", "mirror-pair", "chiral"]

PARTS = [
    HypPart("accounting", lambda tier: repl.replace_case(pattern_classes=CLASSES, dressed=True), oracle, {"quick": 10000, "thorough": 80000}),
]
