"""C07 — overlapping replacements are refused, never silently corrupted."""
import itertools

import numpy as np
from hypothesis import strategies as st

from mv import hperm

from mv import gen_geom, geom, mf, ref_match, repl
from mv.quiet import silenced
from mv.runner import HypPart, Violation

PROPERTY = "C07"
RULE = ("Constructive overlap: zig-zag / straight chains and stars over a two-letter alphabet with step lengths from "
        "{1.0, 1.5} (so occurrences of a sub-chain pattern overlap in controlled ways, also reversed), shifted and "
        "wrapped across the cell boundary, in any storage order, with bonds between arbitrary atoms; pattern = a "
        "sub-chain / centre+arm; replacement derived from it (shared atoms covering / partly covering / missing the "
        "overlap atoms, empty, identical); replace_all on/off; ignore flag on/off; fraction 1 mostly, < 1 with seeds. "
        "Oracle = deletion-set model over the reference matcher's groups and feasible orderings: the call must raise "
        "the dedicated overlap error iff (ignore flag off and) every combination of feasible orderings removes some "
        "atom twice, must not raise if none does, either otherwise; when it returns, the removed atoms are exactly the "
        "union of the deletion sets of one combination, each atom once, and bonds between surviving atoms still join "
        "the same atoms. Non-trivial = at least two found groups share an atom; distinct by hash.")
RULE += (" Since rounds 9-10: After every call, refused or not, structure and both patterns are compared with snapshots taken before it.")
ASSUMPTIONS = ["the exception message is not checked; other exception types are violations only if the model says the "
               "call must succeed", "identity of atoms via unique charge tags"]


@st.composite
def overlap_case(draw):
    atol = draw(st.sampled_from([0.01, 0.05, 0.1]))
    kind = draw(st.sampled_from(["chain", "chain", "zigzag", "zigzag", "star"]))
    alphabet = draw(st.sampled_from([["C", "N"], ["N", "C"], ["C", "C"], ["O", "H"], ["C", "Cl"], ["Na", "N"], ["Si", "S"]]))
    pos, els = [], []
    if kind == "star":
        k = draw(hperm.integers(2, 5))
        pos.append(np.zeros(3))
        els.append(alphabet[0])
        dirs = [np.array(d, float) for d in ([1, 0, 0], [-1, 0, 0], [0, 1, 0], [0, -1, 0], [0, 0, 1], [0, 0, -1])]
        L = draw(st.sampled_from([1.0, 1.5]))
        for i in range(k):
            pos.append(dirs[i] * L)
            els.append(alphabet[1])
        m = 2
        pat_idx = [0, 1]
        if draw(st.booleans()) and k >= 2:
            pat_idx = [1, 0, 2]        # arm-centre-arm (two arms at 180 or 90 degrees)
    else:
        L = draw(hperm.integers(3, 8))
        ang = 0.0 if kind == "chain" else np.radians(draw(st.sampled_from([30.0, 54.75])))
        p = np.zeros(3)
        for i in range(L):
            pos.append(p.copy())
            els.append(draw(st.sampled_from(alphabet)))
            step = draw(st.sampled_from([1.0, 1.0, 1.5]))
            sgn = 1 if i % 2 == 0 else -1
            p = p + step * np.array([np.cos(ang), sgn * np.sin(ang), 0.0])
        m = draw(hperm.integers(2, min(4, L)))
        start = draw(hperm.integers(0, L - m))
        pat_idx = list(range(start, start + m))
        if draw(st.booleans()):
            pat_idx = pat_idx[::-1]
    pos = np.array(pos)
    # the motif is laid out along x as built, or along y / z (the coordinate axes are relabelled)
    pos = pos[:, draw(st.sampled_from([[0, 1, 2], [1, 0, 2], [2, 1, 0], [1, 2, 0]]))]
    ppos = pos[pat_idx].copy()
    pels = [els[i] for i in pat_idx]
    # global pose, shift across a boundary, storage order
    R = draw(gen_geom.random_rotation()) if draw(st.booleans()) else np.eye(3)
    pos = pos @ R.T
    rp = draw(repl.derived_replacement({"pos": ppos.tolist(), "els": pels},
                                       kinds=["empty", "smaller", "smaller", "equal", "larger", "disjoint", "identical"]))
    by_copy = False
    if len(set(pels)) >= 2 and draw(hperm.integers(0, 4)) == 0:
        # the replacement is made the way mofun's own tests make it: copy the search pattern (after it has been used in a
        # search) and re-type some atoms of the copy in place
        by_copy = True
        rels = [draw(st.sampled_from(sorted(set(pels)))) for _ in pels]
        rp = {"pos": ppos.tolist(), "els": rels, "kind": "retyped-copy",
              "shared": {str(i): i for i in range(len(pels)) if rels[i] == pels[i]}}
    d_all = geom.diameter(list(ppos) + [np.array(x) for x in rp["pos"]])
    extent = geom.diameter(pos)
    side = max(extent + 3.0, 2 * d_all + 4 * atol + 1.0)
    tight = draw(hperm.integers(0, 3)) == 0
    if tight:
        # a cell only a little wider than the pattern: occurrences reach across more than half a cell edge, the chain wraps
        # around and meets its own images (whatever occurrences that creates are found by the reference as well)
        side = max(0.55 * extent + 1.0, 1.1 * (d_all + 2 * atol) + 0.3)
    cell = np.diag([side, side * draw(st.sampled_from([1.0, 1.3])), side * draw(st.sampled_from([1.0, 1.6]))])
    tilted = draw(hperm.integers(0, 2)) == 0
    if tilted:
        # the same box sheared (any signs), enlarged so that every perpendicular width is still at least `side`
        t = [draw(st.sampled_from([-0.45, -0.2, 0.0, 0.2, 0.45])) for _ in range(3)]
        if not any(t):
            t[0] = 0.3
        cell = np.array([[cell[0, 0], 0, 0], [t[0] * cell[0, 0], cell[1, 1], 0], [t[1] * cell[0, 0], t[2] * cell[1, 1], cell[2, 2]]])
        cell = cell * max(1.0, side / geom.perp_widths(cell).min()) * (1 + 1e-9)
        if draw(hperm.integers(0, 2)) == 0:
            cell = cell[[1, 0, 2]]          # the same lattice with two vectors listed in the other order (left-handed)
    shift = [draw(st.floats(0, side)) for _ in range(3)]
    spos = geom.wrap(cell, pos + np.array(shift))
    frame = "standard"
    if draw(hperm.integers(0, 3)) == 0:
        # the same crystal described in a turned frame: a general 3x3 cell matrix (all angles unchanged)
        Rf = geom.quat_to_matrix((0.3, 0.5, 0.7, 0.4)) if draw(st.booleans()) else np.asarray(draw(gen_geom.random_rotation()))
        C2 = cell @ Rf.T
        if np.abs(C2 - np.diag(np.diag(C2))).max() < 1e-9 * np.abs(C2).max() and (np.diag(C2) < 0).any():
            # a box along -x / -y / -z (diagonal matrix with negative entries) is outside the domain (DESIGN 9.4): no loader
            # produces it and the orthorhombic code path reads the box lengths from the diagonal
            Rf = geom.quat_to_matrix((0.3, 0.5, 0.7, 0.4))
        cell = cell @ Rf.T
        spos = spos @ Rf.T
        frame = "turned"
    nby = draw(hperm.integers(0, 3))
    sels = list(els)
    extra = []
    for _ in range(nby):
        extra.append(geom.cart(cell, [draw(st.floats(0, 0.999)) for _ in range(3)]))
        sels.append(draw(st.sampled_from(["Zr", "Cu"])))
    spos = np.vstack([spos] + [e[None, :] for e in extra]) if extra else spos
    N = len(sels)
    order = list(draw(hperm.permutations(range(N))))
    spos = spos[order]
    sels = [sels[i] for i in order]
    nb = draw(hperm.integers(0, 5))
    bonds = []
    for _ in range(nb):
        i = draw(hperm.integers(0, N - 1))
        j = draw(hperm.integers(0, N - 1))
        if i != j and [i, j] not in bonds and [j, i] not in bonds:
            bonds.append([i, j])
    fk = draw(st.sampled_from(["one", "one", "one", "frac"]))
    return {"cell": cell.tolist(), "spos": spos.tolist(), "sels": sels, "ppos": ppos.tolist(), "pels": pels,
            "rpos": rp["pos"], "rels": rp["els"], "shared": rp["shared"], "atol": atol, "hints": [None, None, None],
            "seeds": [draw(hperm.integers(0, 2 ** 31 - 1)), draw(hperm.integers(0, 2 ** 31 - 1))],
            "replace_all": draw(st.booleans()), "ignore": draw(st.sampled_from([False, False, True])),
            "f": 1.0 if fk == "one" else draw(st.sampled_from([0.5, 0.34, 0.75, 0.2])),
            "bonds": bonds, "rcharges": [round(repl.R_TAG0 + 0.01 * j, 6) for j in range(len(rp["pos"]))],
            "rgroups": [4] * len(rp["pos"]), "by_copy": by_copy, "prime": draw(st.booleans()),
            "call": draw(st.sampled_from(["keyword", "keyword", "positional"])),
            "pcells": [draw(st.sampled_from([None, None, None, "small", "big"])), draw(st.sampled_from([None, None, None, "small", "tilted"]))],
            "meta": {"kind": kind, "repl_kind": rp["kind"], "cell": ("tilted" if tilted else "ortho") + ("-tight" if tight else "") + ("-turned" if frame == "turned" else "")}}


def build_structure(case):
    from mofun import Atoms
    N = len(case["sels"])
    types = list(dict.fromkeys(case["sels"]))
    with silenced():
        return Atoms(atom_types=[types.index(e) for e in case["sels"]], positions=np.array(case["spos"], float),
                     atom_type_elements=types, atom_type_labels=types,
                     charges=[round(0.001 * (i + 1), 6) for i in range(N)], cell=np.array(case["cell"], float),
                     bonds=[list(b) for b in case["bonds"]], bond_types=[0] * len(case["bonds"]))


def can_avoid(options):
    """is there one deletion set per group with all sets pairwise disjoint?"""
    def rec(i, used):
        if i == len(options):
            return True
        for D in options[i]:
            if not (D & used):
                if rec(i + 1, used | D):
                    return True
        return False
    return rec(0, frozenset())


def explains(options, removed):
    """is there one deletion set per group whose union is exactly `removed`?"""
    def rec(i, acc):
        if i == len(options):
            return acc == removed
        for D in options[i]:
            if D <= removed and rec(i + 1, acc | D):
                return True
        return False
    return rec(0, frozenset())


def oracle(case, stats):
    from mofun import AtomsShouldNotBeDeletedTwice
    atol = case["atol"]
    try:
        groups = ref_match.find_all(case["cell"], case["spos"], case["sels"], case["ppos"], case["pels"], atol)
    except ref_match.TooAmbiguous:
        stats.count("skipped:reference-budget")
        return
    if any(g["cls"] == "grey" for g in groups.values()):
        stats.count("skipped:grey-group")
        return
    sh, s_only, r_only = repl.shared_maps(case)
    empty = len(case["rpos"]) == 0
    if case["replace_all"] or empty:
        s_only = list(range(len(case["ppos"])))
    keys = sorted(groups)
    options = []
    for k in keys:
        opts = {frozenset(o["idx"][j] for j in s_only) for o in groups[k]["orderings"]}
        options.append(sorted(opts, key=sorted))
    if np.prod([len(o) for o in options] or [1]) > 20000:
        stats.count("skipped:too-many-orderings")
        return
    overlapping = any(set(a) & set(b) for a, b in itertools.combinations(keys, 2))
    some_conflict = any(D1 & D2 for (o1, o2) in itertools.combinations(options, 2) for D1 in o1 for D2 in o2)
    avoidable = can_avoid(options)
    s = build_structure(case)
    sp = repl.build_search(case)
    if case.get("by_copy"):
        mf.find(s, sp, atol, case["hints"], case["seeds"], what="priming-search")
        rp = sp.copy()
        tel = [str(e) for e in rp.atom_type_elements]
        for i, e in enumerate(case["rels"]):
            rp.atom_types[i] = tel.index(e)
        rp.charges[:] = case["rcharges"]
        rp.groups[:] = case["rgroups"]
    else:
        rp = repl.build_replace(case)
    f = case["f"]
    if case.get("prime") and not empty and not case.get("by_copy"):
        # an earlier call in the same process with a look-alike replacement: same coordinates and the same automatic type
        # numbering, but the search pattern's elements wherever an atom coincides with a search atom (so that call retains
        # what this one removes).  Its outcome is not judged; nothing of it may leak into the call that is.
        rels2 = list(case["rels"])
        for j, q in enumerate(case["rpos"]):
            for i, q0 in enumerate(case["ppos"]):
                if np.abs(np.array(q) - np.array(q0)).max() < 1e-12:
                    rels2[j] = case["pels"][i]
        num = lambda els: [list(dict.fromkeys(els)).index(e) for e in els]
        if rels2 != list(case["rels"]) and num(rels2) == num(case["rels"]):
            try:
                mf.replace(s, sp, repl.build_replace(dict(case, rels=rels2)), atol, case["hints"], case["seeds"], replace_fraction=f,
                           replace_all=case["replace_all"], ignore_atoms_should_not_be_deleted_twice=True)
            except Exception:
                pass
            stats.count("primed-by-look-alike-replacement")
    raised = None
    new = None
    snap = (mf.snapshot(s), mf.snapshot(sp), mf.snapshot(rp))
    try:
        new, k = mf.replace(s, sp, rp, atol, case["hints"], case["seeds"], replace_fraction=f,
                            replace_all=case["replace_all"], return_num_matches=True,
                            ignore_atoms_should_not_be_deleted_twice=case["ignore"], form=case.get("call", "keyword"))
    except AtomsShouldNotBeDeletedTwice as e:
        raised = e
    except Exception as e:
        if empty or case["ignore"] or not some_conflict:
            raise Violation("unexpected-exception", "%s: %r (model: the call must succeed)" % (type(e).__name__, e))
        raised = e
        if f == 1.0 and not avoidable:
            raise Violation("wrong-exception-type", "%s: %r instead of the dedicated overlap error" % (type(e).__name__, e))
    # --- refused or not, the caller's objects are as they were ("refused, never silently corrupted")
    now = (mf.snapshot(s), mf.snapshot(sp), mf.snapshot(rp))
    if now != snap:
        bad = [n for n, a, b in zip(("structure", "search pattern", "replacement pattern"), snap, now) if a != b]
        raise Violation("inputs-modified", "%s modified by a call that %s" % (", ".join(bad), "was refused" if raised is not None else "returned"))
    stats.count("inputs-intact-after:%s" % ("refusal" if raised is not None else "return"))
    # --- must / must not raise
    if raised is not None:
        if case["ignore"]:
            raise Violation("raised-despite-ignore", "overlap error raised although the caller asked to ignore it")
        if empty:
            raise Violation("raised-for-empty-replacement", "overlap error raised for an empty replacement")
        if not some_conflict:
            raise Violation("false-refusal", "overlap error raised but no atom would be removed by two matches (groups %r, "
                            "deletion sets %r)" % (keys, [[sorted(D) for D in o] for o in options]))
    else:
        if not case["ignore"] and not empty and f == 1.0 and not avoidable:
            raise Violation("overlap-not-refused", "matches %r would remove an atom twice under every feasible ordering "
                            "(deletion sets %r) but a structure was returned" % (keys, [[sorted(D) for D in o] for o in options]))
    # --- result consistency
    if new is not None:
        N = len(case["sels"])
        res = repl.resolved_atoms(new)
        tag_old = {round(0.001 * (i + 1), 6): i for i in range(N)}
        seen = {}
        for pos_i, a in enumerate(res):
            t = round(a["charge"], 6)
            if t in tag_old:
                if tag_old[t] in seen:
                    raise Violation("atom-duplicated", "original atom %d appears twice" % tag_old[t])
                seen[tag_old[t]] = pos_i
        removed = frozenset(set(range(N)) - set(seen))
        if f == 1.0:
            if empty:
                want = frozenset(i for k_ in keys for i in k_)
                if removed != want:
                    raise Violation("removed-set", "empty replacement: removed %r, matched atoms are %r" % (sorted(removed), sorted(want)))
            elif not explains(options, removed):
                raise Violation("removed-set", "removed atoms %r are not the union of one deletion set per match (options %r)" %
                                (sorted(removed), [[sorted(D) for D in o] for o in options]))
            if not case["ignore"] and not empty:
                # every atom removed at most once: the chosen sets were disjoint (otherwise it had to raise)
                pass
        else:
            allowed = frozenset(i for o in options for D in o for i in D)
            if not removed <= allowed:
                raise Violation("removed-set", "removed %r not within matched atoms %r" % (sorted(removed), sorted(allowed)))
        # bonds between surviving atoms still join the same atoms
        want_b = sorted(tuple(sorted((i, j))) for i, j in case["bonds"] if i in seen and j in seen)
        inv = {v: k_ for k_, v in seen.items()}
        got_b = []
        for b in np.asarray(new.bonds).reshape(-1, 2):
            i, j = int(b[0]), int(b[1])
            if i not in inv or j not in inv:
                got_b.append(("new", i, j))
            else:
                got_b.append(tuple(sorted((inv[i], inv[j]))))
        if sorted(got_b, key=str) != sorted(want_b, key=str):
            raise Violation("surviving-bonds", "bonds between surviving atoms (original numbering): expected %r, result has %r" % (want_b, got_b))
        if len(res) != len(new.positions) or len(new.charges) != len(new.positions):
            raise Violation("array-lengths", "inconsistent per-atom arrays")
    # the same objects used again with the ignore flag flipped: the outcome must follow the flag of *this* call
    flag2 = not case["ignore"]
    raised2 = None
    try:
        mf.replace(s, sp, rp, atol, case["hints"], case["seeds"], replace_fraction=f, replace_all=case["replace_all"],
                   ignore_atoms_should_not_be_deleted_twice=flag2)
    except AtomsShouldNotBeDeletedTwice as e:
        raised2 = e
    except Exception as e:
        raised2 = e
        if empty or flag2 or not some_conflict:
            raise Violation("unexpected-exception", "second call (ignore=%s): %s: %r" % (flag2, type(e).__name__, e))
    if raised2 is not None and (flag2 or empty or not some_conflict):
        raise Violation("raised-despite-ignore" if flag2 else "false-refusal", "second call on the same objects with ignore=%s raised" % flag2)
    if raised2 is None and not flag2 and not empty and f == 1.0 and not avoidable:
        raise Violation("overlap-not-refused", "second call on the same objects with ignore=False returned a structure although "
                        "matches %r remove an atom twice" % (keys,))
    stats.count("kind:" + case["meta"]["kind"])
    stats.count("cell:" + case["meta"].get("cell", "ortho"))
    stats.count("repl:" + case["meta"]["repl_kind"])
    stats.count("replace_all:%s" % case["replace_all"])
    stats.count("ignore:%s" % case["ignore"])
    stats.count("call:" + case.get("call", "keyword"))
    stats.count("f:%s" % ("1" if f == 1.0 else "<1"))
    stats.count("outcome:%s" % ("raised" if raised is not None else "returned"))
    cls = "no-overlap" if not overlapping else "overlap-only-retained" if not some_conflict else \
        "removed-by-two(avoidable)" if avoidable else "removed-by-two"
    stats.count("class:" + cls)
    if overlapping:
        stats.mark_nontrivial(case)


PARTS = [
    HypPart("overlaps", lambda tier: overlap_case(), oracle, {"quick": 6000, "thorough": 60000}),
]
