"""C12 — replication describes the same crystal in a larger cell."""
import itertools

import numpy as np
from hypothesis import strategies as st

from mv import hperm

from mv import gen_atoms, gen_geom, mf, model_atoms as M
from mv.quiet import silenced
from mv.runner import FuzzPart, HypPart, Violation

PROPERTY = "C12"
RULE = ("Hypothesis typed structures (1-6 atoms, all four term kinds incl. impropers with/without coefficient tables, "
        "angle/dihedral-only topologies, per-atom and per-term extra columns with differing rows) in orthorhombic, "
        "LAMMPS-oriented tilted (all sign patterns) and arbitrarily rotated cells x replication triples from {1,2,3}^3 "
        "(unequal triples over-weighted; thorough: all 27 per structure). Oracle from the statement: a*b*c*N atoms; for "
        "every original atom and every image (i,j,k) exactly one atom at pos + iA + jB + kC (1e-9) with identical "
        "element / type label / mass / pair text / charge / group / extra fields; cell rows aA, bB, cC; every term "
        "copied within each image with its type and extra fields and nothing else; type tables unchanged; original "
        "unmodified; (1,1,1) is the identity. Non-trivial = (cell tilted or rotated and factors unequal) or the "
        "structure has terms; distinct by hash.")
RULE += (" Since rounds 9-10: In half of the cases .elements of the original is read before replicating; the supercell's .elements must equal its type table looked up through its per-atom types.")
ASSUMPTIONS = ["image atoms are identified by (charge tag, lattice offset); atom order in the result is not asserted"]


@st.composite
def case(draw, tier="quick"):
    spec = draw(gen_atoms.typed_structure(min_atoms=1, max_atoms=6, max_terms=4, coords=draw(st.sampled_from(["in-cell", "anywhere"])), dups=True))
    if draw(hperm.integers(0, 11)) == 0:
        spec = gen_atoms.inflate(spec, 140 // len(spec["pos"]) + 1)         # > 127 atoms before, > 255 after replication
    ck = draw(st.sampled_from(["as-is", "as-is", "rotated", "permuted", "primitive"]))
    if ck == "rotated":
        R = np.asarray(draw(gen_geom.random_rotation()))
        spec["cell"] = (np.array(spec["cell"]) @ R.T).tolist()
        spec["pos"] = (np.array(spec["pos"]).reshape(-1, 3) @ R.T).tolist()
    elif ck == "permuted":
        # the same crystal with the Cartesian axes relabelled (x -> y -> z -> x or a swap): a general 3x3 matrix with zeros on
        # the diagonal
        perm = draw(st.sampled_from([[1, 2, 0], [2, 0, 1], [1, 0, 2], [0, 2, 1]]))
        spec["cell"] = np.array(spec["cell"])[:, perm].tolist()
        spec["pos"] = np.array(spec["pos"]).reshape(-1, 3)[:, perm].tolist()
    elif ck == "primitive":
        # a primitive fcc / bcc cell: valid lattice vectors, none of them along a coordinate axis, zeros on the diagonal (fcc)
        a0 = draw(st.sampled_from([3.6, 4.05, 5.43]))
        C0 = np.array([[0, .5, .5], [.5, 0, .5], [.5, .5, 0]]) * a0 if draw(st.booleans()) else np.array([[-.5, .5, .5], [.5, -.5, .5], [.5, .5, -.5]]) * a0
        fr = np.array(spec["pos"]).reshape(-1, 3) @ np.linalg.inv(np.array(spec["cell"], float))
        spec["cell"] = C0.tolist()
        spec["pos"] = (fr @ C0).tolist()
    big = len(spec["pos"]) > 60
    # the length unit is the caller's: Angstrom mostly, sometimes metres (LAMMPS "units si"), centimetres or picometres
    unit = draw(st.sampled_from([1.0] * 7 + [1e-10, 1e-8, 100.0]))
    if unit != 1.0:
        spec["cell"] = (np.array(spec["cell"]) * unit).tolist()
        spec["pos"] = (np.array(spec["pos"]).reshape(-1, 3) * unit).tolist()
    r = draw(st.sampled_from([[2, 1, 1], [1, 2, 1], [1, 1, 2]])) if big else draw(st.sampled_from([[1, 1, 1], [2, 1, 1], [1, 2, 1], [1, 1, 2], [2, 1, 3], [1, 3, 2], [3, 2, 1], [2, 2, 2], [2, 3, 1],
                              [1, 2, 2], [3, 1, 1], [1, 1, 3], [2, 2, 1]]))
    c = {"spec": spec, "r": r, "cell_kind": ck, "rtype": draw(st.sampled_from(["tuple", "list", "array"])), "unit": unit}
    if not big and draw(hperm.integers(0, 9)) == 0:
        # every atom on one lattice point -(i, j, k) (a single ion, a core/shell pair): one image lands exactly on the origin
        img = [draw(hperm.integers(0, max(0, x - 1))) for x in r]
        p0 = (-(np.array(img, float) @ np.array(spec["cell"], float))).tolist()
        spec["pos"] = [list(p0) for _ in spec["pos"]]
        c["on_lattice_point"] = img
    if draw(hperm.integers(0, 3)) == 0:
        # history on one object: replicate, edit public arrays directly, replicate again with the same factors
        n = len(spec["pos"])
        c["edit"] = {"charge": [draw(hperm.integers(0, n - 1)), round(draw(st.floats(8.0, 9.0)), 4)],
                     "move": [draw(hperm.integers(0, n - 1)), [draw(st.floats(0.0, 0.9)) for _ in range(3)]],
                     "retype": [draw(hperm.integers(0, n - 1)), draw(hperm.integers(0, len(spec["type_labels"]) - 1))],
                     "how": draw(st.sampled_from(["assign-arrays", "in-place"]))}
    return c


def check_one(spec, r, rtype, stats):
    m = M.model_from_spec(spec)
    a = M.build(spec)
    if (len(spec["pos"]) + sum(r)) % 2 == 0:
        # the original has been looked at before (its per-atom element list read, as any search / writer does)
        list(a.elements)
        stats.count("elements-read-before-replicate")
    snap = mf.snapshot(a)
    rep = tuple(r) if rtype == "tuple" else list(r) if rtype == "list" else np.array(r)
    try:
        with silenced():
            sup = a.replicate(rep)
    except Exception as e:
        import traceback
        tb = traceback.extract_tb(e.__traceback__)
        raise Violation("exception-in-replicate", "%s: %r at %s for factors %r (terms: %s)" %
                        (type(e).__name__, e, tb[-1].name if tb else "?", r,
                         {k: len(spec[k + "s"]) for k in M.KINDS}), data={"exc": type(e).__name__})
    if mf.snapshot(a) != snap:
        raise Violation("original-modified", "replicate%r modified the object it was called on" % (tuple(r),))
    what = "replicate%r" % (tuple(r),)
    got = M.resolve(sup, what)
    want = M.m_replicate(m, r)
    N = len(m["atoms"])
    if len(got["atoms"]) != N * r[0] * r[1] * r[2]:
        raise Violation("atom-count", "%s of %d atoms gives %d" % (what, N, len(got["atoms"])))
    cell = np.array(spec["cell"], float)
    wcell = np.array(want["cell"])
    if np.abs(np.array(got["cell"]) - wcell).max() > 1e-9 * np.abs(wcell).max():
        raise Violation("cell", "%s of cell %r gives cell %r, expected rows a*A, b*B, c*C = %r" % (what, cell.tolist(), got["cell"], want["cell"]))
    # identify every result atom as (tag, image)
    scale = max(np.abs(wcell).max(), np.abs(np.array(spec["pos"], float)).max() if len(spec["pos"]) else 0.0)
    index = {}
    for w in want["atoms"]:
        index.setdefault(w["tag"][0], []).append(w)
    ident = []
    used = set()
    for i, g in enumerate(got["atoms"]):
        hit = None
        for w in index.get(g["tag"], []):
            if w["tag"] not in used and max(abs(x - y) for x, y in zip(g["pos"], w["pos"])) <= 1e-9 * scale:
                hit = w
                break
        if hit is None:
            raise Violation("atom-not-an-image", "%s: atom %d (charge %r at %r) is not the original atom at any unused lattice "
                            "offset i*A+j*B+k*C with 0<=i<%d, 0<=j<%d, 0<=k<%d" % (what, i, g["charge"], g["pos"], r[0], r[1], r[2]))
        used.add(hit["tag"])
        ident.append(hit["tag"])
        for f in ("label", "el", "mass", "pair", "charge", "group", "extra"):
            if g[f] != hit[f] and not (f == "mass" and abs(g[f] - hit[f]) < 1e-12):
                raise Violation("image-atom-" + f, "%s: image %r of the atom tagged %r has %s %r, original %r" %
                                (what, hit["tag"][1:], hit["tag"][0], f, g[f], hit[f]))
    if len(used) != len(want["atoms"]):
        raise Violation("image-missing", "%s: some (atom, image) combinations are absent" % what)
    # terms
    for k in M.KINDS:
        arr = np.asarray(getattr(sup, k + "s"))
        gl = []
        for n_, t in enumerate(got["terms"][k]):
            idx = [int(x) for x in arr.reshape(len(got["terms"][k]), -1)[n_]]
            gl.append(dict(t, tags=tuple(ident[i] for i in idx)))
        gk = sorted((M.term_key(t, directed=(k == "improper")) for t in gl), key=repr)
        wk = sorted((M.term_key(t, directed=(k == "improper")) for t in want["terms"][k]), key=repr)
        if gk != wk:
            miss = [x for x in wk if x not in gk]
            extra = [x for x in gk if x not in wk]
            raise Violation(k + "-terms", "%s: %d %ss, expected %d (one copy per image); missing %r; unexpected %r" %
                            (what, len(gk), k, len(wk), miss[:3], extra[:3]))
    # type tables unchanged
    for name in ("atom_type_labels", "atom_type_elements", "pair_coeffs", "bond_type_coeffs", "angle_type_coeffs",
                 "dihedral_type_coeffs", "improper_type_coeffs"):
        if [str(x) for x in getattr(sup, name)] != [str(x) for x in getattr(a, name)]:
            raise Violation("type-table-changed", "%s: %s %r -> %r" % (what, name, list(getattr(a, name)), list(getattr(sup, name))))
    if [float(x) for x in sup.atom_type_masses] != [float(x) for x in a.atom_type_masses]:
        raise Violation("type-table-changed", "%s: masses" % what)
    if list(r) == [1, 1, 1]:
        g1 = M.resolve(sup, what)
        M.compare_atoms(g1["atoms"], m["atoms"], what + " (identity)", pos_tol=0.0)
        M.compare_terms(g1["terms"], m["terms"], what + " (identity)", ordered=True)
    mf.scribble(sup)
    if mf.snapshot(a) != snap:
        raise Violation("result-aliases-original", "modifying the replicated structure in place changes the original (shared arrays)")
    return m


def history_check(c, stats):
    """replicate -> edit the object's public arrays -> replicate again: the second result must describe the edited
    structure (a result remembered from the first call would not)"""
    import copy
    spec = c["spec"]
    e = c["edit"]
    a = M.build(spec)
    rep = tuple(c["r"])
    with silenced():
        a.replicate(rep)
    spec2 = copy.deepcopy(spec)
    i, q = e["charge"]
    j, fr = e["move"]
    k, t = e["retype"]
    spec2["charges"][i] = q
    newpos = (np.array(fr) @ np.array(spec["cell"])).tolist()
    spec2["pos"][j] = newpos
    spec2["atom_types"][k] = t
    if e["how"] == "in-place":
        a.charges[i] = q
        a.positions[j] = newpos
        a.atom_types[k] = t
    else:
        ch = np.array(a.charges, float)
        ch[i] = q
        a.charges = ch
        ps = np.array(a.positions, float)
        ps[j] = newpos
        a.positions = ps
        ty = np.array(a.atom_types)
        ty[k] = t
        a.atom_types = ty
    m2 = M.model_from_spec(spec2)
    if len({x["tag"] for x in m2["atoms"]}) != len(m2["atoms"]):
        return
    try:
        with silenced():
            sup = a.replicate(rep)
    except Exception as ex:
        raise Violation("exception-in-replicate", "second replicate after editing the object: %s: %r" % (type(ex).__name__, ex))
    want = M.m_replicate(m2, list(rep))
    got = M.resolve(sup, "second replicate%r after editing the object (%s)" % (rep, e["how"]))
    cell = np.array(spec["cell"])
    scale = max(np.abs(cell).max() * max(rep), np.abs(np.array(spec2["pos"], float)).max())
    key = lambda r: (r["charge"], tuple(np.round(np.array(r["pos"]) / scale, 7)))
    gs = sorted(got["atoms"], key=key)
    ws = sorted(want["atoms"], key=key)
    if len(gs) != len(ws):
        raise Violation("atom-count", "second replicate after edit: %d atoms, expected %d" % (len(gs), len(ws)))
    for g, w in zip(gs, ws):
        if abs(g["charge"] - w["charge"]) > 1e-12 or max(abs(x - y) for x, y in zip(g["pos"], w["pos"])) > 1e-8 * scale or g["label"] != w["label"]:
            raise Violation("stale-result-after-edit", "replicate%r called again after editing charges / positions / types of the "
                            "same object (%s) returns an atom (charge %r, label %r, at %r) where the edited structure has (charge "
                            "%r, label %r, at %r)" % (rep, e["how"], g["charge"], g["label"], g["pos"], w["charge"], w["label"], w["pos"]))
    stats.count("history:%s" % e["how"])


def oracle(c, stats):
    spec = c["spec"]
    if c.get("edit") and spec["cell"] is not None:
        history_check(c, stats)
    if c.get("all_factors"):
        for r in itertools.product([1, 2, 3], repeat=3):
            check_one(spec, list(r), c["rtype"], stats)
            stats.evaluations += 1
    m = check_one(spec, c["r"], c["rtype"], stats)
    cell = np.array(spec["cell"])
    tilted = bool(np.abs(cell - np.diag(np.diag(cell))).max() > 1e-9 * np.abs(cell).max())
    stats.count("length-unit:%g" % c.get("unit", 1.0))
    if c.get("on_lattice_point"):
        stats.count("all-atoms-on-a-lattice-point")
    nterms = sum(len(spec[k + "s"]) for k in M.KINDS)
    stats.count("cell:%s" % (c["cell_kind"] if c["cell_kind"] != "as-is" else "tilted" if tilted else "ortho"))
    stats.count("factors:%s" % ("111" if c["r"] == [1, 1, 1] else "equal" if len(set(c["r"])) == 1 else "unequal"))
    stats.count("impropers:%s" % bool(spec["impropers"]))
    stats.count("terms-without-bonds:%s" % (nterms > 0 and not spec["bonds"]))
    gen_atoms.spec_stats(spec, stats)
    if (tilted and len(set(c["r"])) > 1) or nterms:
        stats.mark_nontrivial(c)


@st.composite
def thorough_case(draw):
    c = draw(case())
    c["all_factors"] = draw(hperm.integers(0, 9)) == 0 and len(c["spec"]["pos"]) <= 12
    return c


PARTS = [
    HypPart("replicate", lambda tier: case() if tier == "quick" else thorough_case(), oracle, {"quick": 5000, "thorough": 40000}),
    FuzzPart("coverage-guided-replicate", "replicate", runs=5000),
]
