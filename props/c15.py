"""C15 — P1 CIF files round-trip."""
import io
import os
import math
import re

import numpy as np
from hypothesis import strategies as st

from mv import hperm

from mv import gen_atoms, gen_geom, geom, model_atoms as M, ref_cif
from mv.quiet import silenced, workdir
from mv.runner import FuzzPart, HypPart, Violation

PROPERTY = "C15"
RULE = ("(A) write->read->write: Hypothesis typed structures (1-8 atoms) with orthorhombic / tilted / arbitrarily "
        "oriented cells, atoms inside, outside and exactly on the cell boundary, charges, bonds, angles, dihedrals and "
        "impropers, extra per-atom / per-bond / per-angle / per-torsion columns, fractional and Cartesian output: "
        "elements and order, cell lengths (1e-9 rel) and angles (5e-5 deg), fractional coordinates modulo 1 (5e-5), "
        "charges, bonds / angles / torsions (dihedrals then impropers) between the same atoms and all extra columns "
        "must come back; save(load(T)) must be identical text on the second pass, and on the first when the atoms were "
        "inside the cell. (B) reader: hand-emitted CIF text (harness-side emitter) with standard-uncertainty "
        "parentheses on coordinates and cell, Cartesian-only files, loops in other tag orders, fractional coordinates "
        "exactly 1.0 / negative / > 1, P1 spellings and non-P1 H-M symbols: coordinates wrapped into the cell, values "
        "parsed, agreement with ase.io.read on cell and positions (1e-6 modulo lattice), non-P1 rejected. "
        "Non-trivial = (A) tilted cell or coordinates outside the cell, with >= 1 term and >= 1 extra column; (B) any "
        "file with s.u., Cartesian coordinates, out-of-cell coordinates or an H-M symbol; distinct by hash.")
RULE += (" Since rounds 9-10: Every round-trip case also goes through Atoms.save(path) / Atoms.load(path) / load_p1_cif(path) on one fixed path and must agree with the file-object route; extra per-atom columns may carry tags that merely begin like handled tags (_atom_site_fract_x_su, ...); whole-number cells may be handed over as ints.")
ASSUMPTIONS = ["with the CIF library version installed in the environment (PyCifRW 5.0.1)",
               "ase.io.read is the independent reader; it shares ase.geometry.cellpar_to_cell with mofun"]


@st.composite
def rt_case(draw):
    spec = draw(gen_atoms.typed_structure(min_atoms=1, max_atoms=8, max_terms=4, cell="lammps",
                                          coords=draw(st.sampled_from(["in-cell", "anywhere"])), pair=False))
    for k in M.KINDS:
        spec[k + "_coeffs"] = []
    # CIF knows elements only.  Half of the structures have one type per element (as after loading a CIF), the others keep
    # their typed form with several atom types per element (as after loading a LAMMPS file or inserting a typed pattern)
    if draw(st.booleans()):
        els = [spec["type_elements"][t] for t in spec["atom_types"]]
        types = list(dict.fromkeys(els))
        spec["type_elements"], spec["type_labels"] = types, types
        from mofun.atomic_masses import ATOMIC_MASSES
        spec["type_masses"] = [ATOMIC_MASSES[e] for e in types]
        spec["atom_types"] = [types.index(e) for e in els]
    elif len(spec["type_elements"]) > 1 and draw(st.booleans()):
        spec["type_elements"][1] = spec["type_elements"][0]          # make sure two types share an element
        from mofun.atomic_masses import ATOMIC_MASSES
        spec["type_masses"][1] = round(ATOMIC_MASSES[spec["type_elements"][0]] + 0.001, 6)
    spec["groups"] = [0] * len(spec["pos"])
    if draw(hperm.integers(0, 4)) == 0:
        # charges of other magnitudes: very small (printed with an exponent by repr), large, many digits
        scale = draw(st.sampled_from([2.5e-7, 1.234567e-5, 1e-9, 12.5, 0.333333333333]))
        spec["charges"] = [(-1 if i % 2 else 1) * (i + 1) * scale for i in range(len(spec["pos"]))]
    if spec["extra_atom_labels"] and draw(hperm.integers(0, 2)) == 0:
        # extra per-atom columns whose tags merely begin like tags the reader handles itself (standard-uncertainty
        # companions, alternative labels)
        alt = ["_atom_site_fract_x_su", "_atom_site_cartn_y_su", "_atom_site_label_component_0"]
        spec["extra_atom_labels"] = alt[:len(spec["extra_atom_labels"])]
    # torsion columns: one label set shared by dihedrals and impropers is what the format can carry
    spec["extra_improper_labels"], spec["extra_improper_fields"] = [], []
    if draw(hperm.integers(0, 3)) == 0 and spec["pos"]:
        # atoms exactly on the cell boundary
        C = np.array(spec["cell"])
        f = [draw(st.sampled_from([0.0, 1.0, 0.5])) for _ in range(3)]
        spec["pos"][0] = (np.array(f) @ C).tolist()
    orient = draw(st.sampled_from(["standard", "standard", "rotated"]))
    fract = draw(st.booleans())
    if orient == "rotated" and fract:
        R = np.asarray(draw(gen_geom.random_rotation()))
        spec["cell"] = (np.array(spec["cell"]) @ R.T).tolist()
        spec["pos"] = (np.array(spec["pos"]).reshape(-1, 3) @ R.T).tolist()
    else:
        orient = "standard"
    return {"spec": spec, "fract": fract, "orient": orient}


def save_cif(a, fract):
    buf = io.StringIO()
    with silenced():
        a.save_p1_cif(buf, use_fract_coords=fract)
    return buf.getvalue()


def load_cif(text):
    from mofun import Atoms
    with silenced():
        return Atoms.load_p1_cif(io.StringIO(text))


def cellpar(cell):
    c = np.asarray(cell, float)
    L = [np.linalg.norm(v) for v in c]
    ang = lambda u, v: math.degrees(math.acos(max(-1.0, min(1.0, np.dot(u, v) / (np.linalg.norm(u) * np.linalg.norm(v))))))
    return L + [ang(c[1], c[2]), ang(c[0], c[2]), ang(c[0], c[1])]


def rows_of(a, kind):
    arr = np.asarray(getattr(a, kind + "s"))
    return [[int(x) for x in t] for t in arr.reshape(len(arr), -1)] if len(arr) else []


def extra_of(a, kind):
    labels = list(getattr(a, "extra_%s_labels" % kind))
    f = np.asarray(getattr(a, "extra_%s_fields" % kind))
    return labels, [[str(x) for x in r] for r in f] if len(labels) else []


def rt_oracle(c, stats):
    spec, fract = c["spec"], c["fract"]
    a = M.build(spec)
    try:
        t1 = save_cif(a, fract)
    except Exception as e:
        import traceback
        tb = traceback.extract_tb(e.__traceback__)
        raise Violation("exception-in-save", "%s: %r at %s (dihedrals %d, impropers %d, torsion columns %r)" %
                        (type(e).__name__, e, tb[-1].name if tb else "?", len(spec["dihedrals"]), len(spec["impropers"]), spec["extra_dihedral_labels"]))
    try:
        b = load_cif(t1)
    except Exception as e:
        raise Violation("exception-in-load", "reading the written file: %s: %r" % (type(e).__name__, e))
    # the same through the file system, always the same path (what was read from it before must not come back), by
    # Atoms.save / Atoms.load and by load_p1_cif(path)
    from mofun import Atoms
    path = os.path.join(workdir(), "s.cif")
    try:
        with silenced():
            a.save(path, use_fract_coords=fract)
            tp = open(path).read()
            bp1 = Atoms.load(path)
            bp2 = Atoms.load_p1_cif(path)
    except Exception as e:
        raise Violation("exception-in-path-io", "Atoms.save(path) / Atoms.load(path) / load_p1_cif(path): %s: %r" % (type(e).__name__, e))
    if tp != t1:
        raise Violation("path-vs-file", "Atoms.save(path) writes other text than save_p1_cif(file object)")
    from mv import mf
    for how, bp in (("Atoms.load(path)", bp1), ("Atoms.load_p1_cif(path)", bp2)):
        if mf.snapshot(bp) != mf.snapshot(b):
            sb, sp_ = mf.snapshot(b), mf.snapshot(bp)
            raise Violation("path-vs-file", "%s of the file just written differs from reading the same text from a file object (%s)" %
                            (how, ", ".join(k for k in sb if sb[k] != sp_.get(k))))
    n = len(spec["pos"])
    els = [spec["type_elements"][t] for t in spec["atom_types"]]
    if list(b.elements) != els:
        raise Violation("elements", "read back %r, written %r" % (list(b.elements), els))
    want_par, got_par = cellpar(spec["cell"]), cellpar(b.cell)
    for i in range(3):
        if abs(got_par[i] - want_par[i]) > 1e-9 * want_par[i]:
            raise Violation("cell-lengths", "read back %r, written %r" % (got_par[:3], want_par[:3]))
        if abs(got_par[3 + i] - want_par[3 + i]) > 5.1e-5:
            raise Violation("cell-angles", "read back %r, written %r" % (got_par[3:], want_par[3:]))
    fa = geom.frac(spec["cell"], np.array(spec["pos"]).reshape(-1, 3))
    fb = geom.frac(b.cell, np.asarray(b.positions, float))
    if fract:
        d = np.abs(fa - fb)
        d = np.minimum(d % 1.0, 1.0 - (d % 1.0))
        if d.max() > 5.1e-5 + 1e-9:
            i = int(np.argmax(d.max(axis=1)))
            raise Violation("fractional-coordinates", "atom %d: written %r, read back %r" % (i, fa[i].tolist(), fb[i].tolist()))
        if fb.min() < -1e-9 or fb.max() > 1.0 + 1e-9:
            raise Violation("not-wrapped", "fractional coordinates %r after reading" % fb[np.argmax(np.abs(fb - 0.5).max(axis=1))].tolist())
    else:
        if np.abs(np.asarray(b.positions, float) - np.array(spec["pos"]).reshape(-1, 3)).max() > 5.1e-5:
            raise Violation("cartesian-coordinates", "Cartesian positions differ by more than the printed precision")
    if np.abs(np.asarray(b.charges, float) - np.array(spec["charges"])).max() > 1e-9:
        raise Violation("charges", "read back %r, written %r" % (list(b.charges), spec["charges"]))
    for kind, want in (("bond", spec["bonds"]), ("angle", spec["angles"]), ("dihedral", list(spec["dihedrals"]) + list(spec["impropers"]))):
        got = rows_of(b, kind)
        if got != [list(t) for t in want]:
            raise Violation(kind + "s", "%s read back %r, written %r%s" % (kind, got, want, " (dihedrals followed by impropers)" if kind == "dihedral" else ""))
    la, fa_ = extra_of(b, "atom")
    if la != list(spec["extra_atom_labels"]) or (la and fa_ != [[str(x) for x in r] for r in spec["extra_atom_fields"]]):
        raise Violation("extra-atom-columns", "read back %r %r, written %r %r" % (la, fa_, spec["extra_atom_labels"], spec["extra_atom_fields"]))
    for kind in ("bond", "angle", "dihedral"):
        lb, fb_ = extra_of(b, kind)
        wl = list(spec["extra_%s_labels" % kind])
        wf = [[str(x) for x in r] for r in spec["extra_%s_fields" % kind]]
        if kind == "dihedral" and spec["impropers"] and wl:
            # the torsion loop has one row per dihedral and per improper; the dihedral columns cover the dihedral rows
            if lb != wl or fb_[:len(wf)] != wf:
                raise Violation("extra-torsion-columns", "read back %r %r, written %r %r" % (lb, fb_, wl, wf))
        elif lb != wl or (wl and fb_ != wf):
            raise Violation("extra-%s-columns" % kind, "read back %r %r, written %r %r" % (lb, fb_, wl, wf))
    # idempotence
    t2 = save_cif(b, fract)
    b2 = load_cif(t2)
    t3 = save_cif(b2, fract)
    if t2 != t3:
        d = [(x, y) for x, y in zip(t2.split("\n"), t3.split("\n")) if x != y]
        raise Violation("not-idempotent", "writing the re-read structure twice gives different text, e.g. %r vs %r" % (d[0] if d else ("", "")))
    inside = fract and fa.size and fa.min() >= 0.0 and fa.max() < 0.99995
    if (inside or not fract) and c["orient"] == "standard" and t1 != t2:
        d = [(x, y) for x, y in zip(t1.split("\n"), t2.split("\n")) if x != y]
        raise Violation("rewrite-differs", "writing the re-read structure gives different text although all atoms were inside "
                        "the cell, e.g. %r vs %r" % (d[0] if d else ("", "")))
    # history on one object: edit the object that has just been written and write it again
    if n >= 1 and fract:
        C = np.array(spec["cell"], float)
        newf = np.array([0.123, 0.456, 0.789])
        a.positions[0] = newf @ C
        a.charges[0] = 0.75
        try:
            t5 = save_cif(a, fract)
            b5 = load_cif(t5)
        except Exception as e:
            raise Violation("exception-in-save", "second write after editing the object: %s: %r" % (type(e).__name__, e))
        f5 = geom.frac(b5.cell, np.asarray(b5.positions, float))[0]
        d5 = np.abs(f5 - newf)
        if np.minimum(d5, 1 - d5).max() > 5.1e-5 or abs(float(b5.charges[0]) - 0.75) > 1e-9:
            raise Violation("second-write-stale", "the object was edited (position and charge of atom 0) after a first write; the "
                            "second file reads back fractional %r charge %r" % (f5.tolist(), float(b5.charges[0])))
        # ... and a supercell of the object that has just been written (the cell changes, everything derived from it must too)
        try:
            with silenced():
                sup = a.replicate((2, 1, 1))
            t6 = save_cif(sup, fract)
            b6 = load_cif(t6)
        except Exception as e:
            raise Violation("exception-in-save", "writing a supercell of an object that was written before: %s: %r" % (type(e).__name__, e))
        f6 = geom.frac(b6.cell, np.asarray(b6.positions, float))
        w6 = geom.frac(np.asarray(sup.cell, float), np.asarray(sup.positions, float))
        if len(f6) != len(w6):
            raise Violation("supercell-write", "%d atoms read back, %d written" % (len(f6), len(w6)))
        d6 = np.abs(f6 - (w6 % 1.0))
        d6 = np.minimum(d6 % 1.0, 1.0 - (d6 % 1.0))
        if d6.size and d6.max() > 5.1e-5 + 1e-9:
            i6 = int(np.argmax(d6.max(axis=1)))
            raise Violation("supercell-write-stale", "a 2x1x1 supercell of an object that had been written before: atom %d written "
                            "at fractional %r reads back at %r" % (i6, (w6[i6] % 1.0).tolist(), f6[i6].tolist()))
    # independent reader
    import ase.io
    try:
        with silenced():
            ra = ase.io.read(io.StringIO(t1), format="cif")
    except Exception as e:
        raise Violation("ase-cannot-read", "the independent reader fails on the written file: %s: %r" % (type(e).__name__, e))
    if np.abs(np.asarray(ra.cell) - np.asarray(b.cell, float)).max() > 1e-6:
        raise Violation("ase-cell", "independent reader gets cell %r, mofun %r" % (np.asarray(ra.cell).tolist(), np.asarray(b.cell).tolist()))
    if len(ra) == n:          # the independent reader merges coincident atoms; then there is nothing to compare atom by atom
        for i in range(n):
            if geom.lattice_diff(b.cell, ra.positions[i], b.positions[i]) > 1e-6:
                raise Violation("ase-positions", "atom %d: independent reader %r, mofun %r" % (i, ra.positions[i].tolist(), list(b.positions[i])))
    else:
        stats.count("rt:ase-merged-coincident-atoms")
    cell = np.array(spec["cell"])
    tilted = bool(np.abs(cell - np.diag(np.diag(cell))).max() > 1e-9)
    outside = bool(fa.size and (fa.min() < 0 or fa.max() >= 1))
    nterms = sum(len(spec[k + "s"]) for k in M.KINDS)
    ncols = len(spec["extra_atom_labels"]) + sum(len(spec["extra_%s_labels" % k]) for k in M.KINDS)
    stats.count("rt:coords:%s" % ("fract" if fract else "cartn"))
    stats.count("rt:cell:%s" % (c["orient"] if c["orient"] == "rotated" else "tilted" if tilted else "ortho"))
    stats.count("rt:outside-cell:%s" % outside)
    stats.count("rt:impropers:%s" % bool(spec["impropers"]))
    stats.count("rt:torsion-columns-with-impropers:%s" % bool(spec["impropers"] and spec["extra_dihedral_labels"]))
    if (tilted or outside) and nterms and ncols:
        stats.mark_nontrivial(c)


# ---------------------------------------------------------------------------------------------------------------------

NON_P1 = ["P -1", "P 21/c", "P 1 21/c 1", "P 1 2 1", "P 1 c 1", "P 1 1 2", "P 4/m m m", "F m -3 m", "P 2", "P1 21/n 1", "C 2/c",
          "P 21 21 21", "I 41/a m d", "R -3 m", "P n m a", "P -1 "]
P1_OK = ["P1", "P 1", None]


@st.composite
def su(draw, v, digits=4):
    s = "%.*f" % (digits, v)
    if draw(st.booleans()):
        s += "(%d)" % draw(hperm.integers(1, 99))
    return s


@st.composite
def reader_case(draw):
    n = draw(hperm.integers(1, 8))
    els = [draw(st.sampled_from(["C", "H", "O", "N", "Zr", "Cu"])) for _ in range(n)]
    a, b, c = [round(draw(st.floats(4.0, 20.0)), 4) for _ in range(3)]
    ck = draw(st.sampled_from(["ortho", "tri", "tri"]))
    al, be, ga = (90.0, 90.0, 90.0) if ck == "ortho" else tuple(round(draw(st.floats(65.0, 115.0)), 4) for _ in range(3))
    cart = draw(st.sampled_from([False, False, True]))
    use_su = draw(st.booleans())
    fr = []
    for i in range(n):
        row = []
        for _ in range(3):
            k = draw(st.sampled_from(["in", "in", "one", "neg", "big", "zero"]))
            row.append({"in": round(draw(st.floats(0.0, 0.9999)), 4), "one": 1.0, "neg": -round(draw(st.floats(0.0001, 1.5)), 4),
                        "big": round(draw(st.floats(1.0001, 2.9)), 4), "zero": 0.0}[k])
        fr.append(row)
    hm = draw(st.sampled_from(P1_OK * 12 + NON_P1))
    cellstr = [draw(su(v)) if use_su else "%.4f" % v for v in (a, b, c, al, be, ga)]
    order = draw(hperm.permutations(range(6 + (1 if draw(st.booleans()) else 0))))
    bonds = []
    if n > 1:
        for _ in range(draw(hperm.integers(0, 3))):
            i = draw(hperm.integers(0, n - 1))
            j = draw(hperm.integers(0, n - 1).filter(lambda x: x != i))
            bonds.append([i, j])
    return {"els": els, "cellpar": [a, b, c, al, be, ga], "cellstr": cellstr, "coords": fr, "cart": cart, "su": use_su,
            "hm": hm, "order": list(order), "bonds": bonds, "header": draw(st.sampled_from(["2.0", "1.1", None])),
            "charge": draw(st.booleans()), "int_tables": draw(st.sampled_from([None, 1]))}


def reader_text(c):
    from ase.geometry import cellpar_to_cell
    n = len(c["els"])
    cnt, labels = {}, []
    for e in c["els"]:
        cnt[e] = cnt.get(e, 0) + 1
        labels.append("%s%d" % (e, cnt[e]))
    cell = cellpar_to_cell(c["cellpar"])
    vals = np.array(c["coords"], float)
    if c["cart"]:
        vals = vals @ cell      # the drawn numbers are fractional; a Cartesian file states the Cartesian positions
        tags3 = ["_atom_site_Cartn_x", "_atom_site_Cartn_y", "_atom_site_Cartn_z"]
    else:
        tags3 = ["_atom_site_fract_x", "_atom_site_fract_y", "_atom_site_fract_z"]
    cols = {"_atom_site_label": labels, "_atom_site_type_symbol": c["els"]}
    for k, t in enumerate(tags3):
        cols[t] = [("%.4f(%d)" % (v, 3 + i) if c["su"] and (i + k) % 2 == 0 else "%.4f" % v) for i, v in enumerate(vals[:, k])]
    cols["_atom_site_occupancy"] = ["1.0"] * n
    if len(c["order"]) > 6 and c["charge"]:
        cols["_atom_site_charge"] = ["%.3f" % (0.1 * i - 0.2) for i in range(n)]
    tags = list(cols)
    tags = [tags[i] for i in c["order"] if i < len(tags)] + [t for i, t in enumerate(tags) if i not in c["order"]]
    rows = [[cols[t][i] for t in tags] for i in range(n)]
    loops = []
    if c["bonds"]:
        loops.append((["_geom_bond_atom_site_label_1", "_geom_bond_atom_site_label_2", "_geom_bond_distance"],
                      [[labels[i], labels[j], "1.5%d(2)" % k] for k, (i, j) in enumerate(c["bonds"])]))
    doc = {"name": "x", "hm": c["hm"], "int_tables": c["int_tables"], "cell": c["cellstr"], "atom_tags": tags, "atom_rows": rows,
           "loops": loops, "header": c["header"]}
    return ref_cif.emit(doc), cell, vals, cols.get("_atom_site_charge")


def reader_oracle(c, stats):
    text, cell, vals, charges = reader_text(c)
    n = len(c["els"])
    non_p1 = c["hm"] is not None and c["hm"] not in ("P1", "P 1")
    try:
        b = load_cif(text)
        err = None
    except Exception as e:
        b, err = None, e
    if non_p1:
        if err is None:
            raise Violation("non-p1-accepted", "a file declaring space group %r was loaded (%d atoms returned)" % (c["hm"], len(b.positions)))
        stats.count("reader:rejected-non-P1")
        stats.mark_nontrivial(c)
        return
    if err is not None:
        raise Violation("reader-exception", "%s: %r on\n%s" % (type(err).__name__, err, text[:1500]))
    if list(b.elements) != list(c["els"]):
        raise Violation("reader-elements", "%r vs %r" % (list(b.elements), c["els"]))
    if np.abs(np.asarray(b.cell, float) - cell).max() > 1e-9:
        raise Violation("reader-cell", "cell %r, file says %r" % (np.asarray(b.cell).tolist(), c["cellpar"]))
    pos = np.asarray(b.positions, float)
    if c["cart"]:
        want = np.array([[float("%.4f" % v) for v in row] for row in vals])
        if np.abs(pos - want).max() > 1e-9:
            raise Violation("reader-cartesian", "positions %r, file says %r" % (pos.tolist(), want.tolist()))
    else:
        f = geom.frac(cell, pos)
        if f.min() < -1e-9 or f.max() >= 1.0 - 1e-12 + 1e-9 and f.max() > 1.0 + 1e-9:
            raise Violation("reader-not-wrapped", "fractional coordinates %r" % f.tolist())
        if f.max() > 1.0 - 1e-9:
            raise Violation("reader-not-wrapped", "a fractional coordinate of exactly 1 was not wrapped to 0: %r" % f[np.argmax(f.max(axis=1))].tolist())
        d = np.abs(f - (np.array(c["coords"]) % 1.0))
        d = np.minimum(d, 1.0 - d)
        if d.max() > 1e-9:
            raise Violation("reader-fractional", "fractional coordinates %r, file says %r (modulo 1)" % (f.tolist(), c["coords"]))
    if charges is not None and np.abs(np.asarray(b.charges, float) - np.array([float(x) for x in charges])).max() > 1e-12:
        raise Violation("reader-charges", "%r vs %r" % (list(b.charges), charges))
    got_b = rows_of(b, "bond")
    if got_b != [list(x) for x in c["bonds"]]:
        raise Violation("reader-bonds", "%r vs %r" % (got_b, c["bonds"]))
    if c["bonds"]:
        lb, fb = extra_of(b, "bond")
        if lb != ["_geom_bond_distance"] or [r[0] for r in fb] != ["1.5%d(2)" % k for k in range(len(c["bonds"]))]:
            raise Violation("reader-bond-columns", "%r %r" % (lb, fb))
    if "_atom_site_occupancy" not in list(b.extra_atom_labels):
        raise Violation("reader-extra-columns", "extra atom labels %r" % list(b.extra_atom_labels))
    import ase.io
    try:
        with silenced():
            ra = ase.io.read(io.StringIO(text), format="cif")
    except Exception as e:
        ra = None
        stats.count("reader:ase-failed")
    if ra is not None and len(ra) != n:
        stats.count("reader:ase-merged-coincident-atoms")
        ra = None
    if ra is not None:
        if np.abs(np.asarray(ra.cell) - np.asarray(b.cell, float)).max() > 1e-6:
            raise Violation("ase-cell", "independent reader gets cell %r, mofun %r" % (np.asarray(ra.cell).tolist(), np.asarray(b.cell).tolist()))
        for i in range(n):
            if geom.lattice_diff(cell, ra.positions[i], pos[i]) > 1e-6:
                raise Violation("ase-positions", "atom %d: independent reader %r, mofun %r" % (i, ra.positions[i].tolist(), pos[i].tolist()))
    stats.count("reader:coords:%s" % ("cartn" if c["cart"] else "fract"))
    stats.count("reader:su:%s" % c["su"])
    stats.count("reader:hm:%s" % c["hm"])
    outside = any(v < 0 or v >= 1 for r in c["coords"] for v in r)
    stats.count("reader:outside-or-on-boundary:%s" % outside)
    if c["su"] or c["cart"] or outside or c["hm"]:
        stats.mark_nontrivial(c)


PARTS = [
    HypPart("write-read-write", lambda tier: rt_case(), rt_oracle, {"quick": 3000, "thorough": 20000}),
    HypPart("reader", lambda tier: reader_case(), reader_oracle, {"quick": 3000, "thorough": 20000}),
    FuzzPart("coverage-guided-reader", "reader", runs=5000),
]
